"""per-property manifest text (kept next to the contracts so it stays in step with what is actually checked)"""
CLAIMED = {
    "C18": {
        "category": "proof",
        "text": "RateLimiter.evaluate_rules and RateLimiter.is_limited are verified against contracts that restate the property: a refusal implies some applicable rule (I,n) already has n recorded messages in its window, an admission implies every rule has room (so no window ever holds more than n admitted messages), refused messages leave no record, a specific-address rule overrides the generic ones, every deque stays newest-first; for all rule lists, histories and clock values (loops cut by inductive invariants, counting by a recursive spec function with proved lemmas).",
        "note": "Assumed: clock reads are non-decreasing reals; ipaddress.ip_address is modelled (ValueError unless valid, .packed has 4 or 16 bytes); logging is effect-free; Python semantics as encoded by pyvc. Not covered yet: parse_option's grammar, cleanup(), the limiter call sites in web.py, the bounded-state clause. Three genuine defects are listed in known_findings.json (n = 0 rule, global history records refused messages, IPv6 specific rule) and excluded by their `when` classes only.",
    },
}
NOT_APPLICABLE = {}
