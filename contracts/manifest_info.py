"""per-property manifest text (kept next to the contracts so it stays in step with what is actually checked)"""
CLAIMED = {
    "C18": {
        "category": "proof",
        "text": "RateLimiter.evaluate_rules and RateLimiter.is_limited are verified against contracts that restate the property: a refusal implies some applicable rule (I,n) already has n recorded messages in its window, an admission implies every rule has room (so no window ever holds more than n admitted messages), refused messages leave no record, a specific-address rule overrides the generic ones, every deque stays newest-first; for all rule lists, histories and clock values (loops cut by inductive invariants, counting by a recursive spec function with proved lemmas).",
        "note": "Assumed: clock reads are non-decreasing reals; ipaddress.ip_address is modelled (ValueError unless valid, .packed has 4 or 16 bytes); logging is effect-free; Python semantics as encoded by pyvc. Not covered yet: parse_option's grammar, cleanup(), the limiter call sites in web.py, the bounded-state clause. Three genuine defects are listed in known_findings.json (n = 0 rule, global history records refused messages, IPv6 specific rule) and excluded by their `when` classes only.",
    },
}
CLAIMED["C16"] = {
    "category": "proof",
    "text": "Every validator in validators.py is verified against an exactness contract taken from the property (raises StorageError if and only if its documented bound is violated: size, age/future skew against the two clock reads, kind list, allow/deny lists, leading-zero bits, p-tag count, service author); the pipeline closure built by get_validator is proved to call every configured validator, in order, on the submitted event and to propagate any exception; dynamic_lists.is_pubkey_allowed is exact w.r.t. the global sets; ListBuilder.run_once is proved to collect exactly the lower-cased 64-hex p-tag values (one fold step per tag), to install exactly the collected set, to add exactly the static whitelist to a non-empty allow list, never to fail with ValueError, and is checked for the visible-state invariant after every mutation of a global list.",
    "note": "Assumed: Event fields have their canonical types (is_pow/is_pubkey_allowed assume nothing about hex-ness: a malformed id/pubkey raises ValueError = refusal); bytes.fromhex, int.from_bytes, int.bit_length, str.lower are uninterpreted with stated facts; the storage query iterator yields arbitrary events or fails with an engine error; thread interleavings finer than one statement rest on GIL atomicity. The admission sites (validators run before any store/broadcast, failures leave no trace) are C03/C06 obligations. The induction from the per-tag fold step to 'the list equals the set of all p-tagged pubkeys' is not mechanised. One genuine defect (allow list observably empty between clear() and update()) is listed in known_findings.json.",
}
CLAIMED["C15"] = {
    "category": "proof",
    "text": "Authenticator.check_auth_event is verified against the property's acceptance condition (normal return implies: verify() true, kind 22242, timestamp within 600 s of the clock read, a relay tag present and every relay tag equal to one of the configured URLs (list membership, not substring), a challenge tag present and every challenge tag equal to the challenge passed) with an inductive invariant over the tags, and conversely a correct answer is never refused; authenticate() returns a token only after that check accepted the event built from the payload and names its signer; get_challenge returns 128 fresh random bits; in web.start_client the identity changes only in an AUTH iteration in which authenticate() returned, the only challenge ever passed is the one issued once for this connection (loop invariant + per-iteration postconditions over all 300+ paths of the handler).",
    "note": "Assumed: Event.verify() (aionostr + coincurve) is an uninterpreted predicate = 'signature and delegation signatures check out over the recomputed hash' -- it does not compare the hash with the id field (C03 finding territory); secrets.token_hex is unpredictable and independent; clock reads are monotone reals; valid_urls is a list (parse_options normalises a single string since fix 9ae5ec6; parse_options itself is not under contract). Not covered: replay across connections rests on the challenge being per-connection and random (assumed distinctness), interleavings of two AUTH messages.",
}
CLAIMED["C14"] = {
    "category": "proof",
    "text": "Authenticator.can_do is verified exact against the property: allowed iff authentication is disabled, or the action is not configured, or some role is in both the action's role set and the token's roles, where a missing/empty token or a token without a roles entry stands for the anonymous default role and an authenticated token with an EMPTY role set has no role at all.",
    "note": "Also proved: DBStorage.add_event INSERT/broadcast/return require 'save authorized for this event'; BaseStorage.subscribe starts a subscription only after the query check; BaseSubscription.notify applies the output validator to live pushes (after fix). Not covered yet: LMDB add_event, the stored-query loops' output validator, role storage round trip. evaluate_target is treated as an arbitrary boolean.",
}

_LMDB_PENDING = " LMDB backend: LMDBStorage.add_event (typestate: validated/authorized before enqueue and broadcast), WriterThread.run (one write transaction per task, abort on any failure changes no key, no exception escapes the loop), _post_save (C08/C09 frame at every _delete_event call, through the event-level scanner contract) and Index.write/_delete_event (C10) are under contract; the index scanner's completeness is not proved (bounded check planned)."
CLAIMED["C03"] = {
    "category": "proof",
    "text": "validators.is_canonical is verified EXACT against NIP-01 canonical form over arbitrary JSON-typed payload fields (integer created_at/kind, string content, 64/128-char lower-case hex pubkey/sig, tags = arrays of non-empty arrays of strings or plain integers, id equal to the hash of the event's own fields); is_signed returns normally only if is_canonical and Event.verify(); the validator pipeline runs every configured validator on the submitted event; in DBStorage.add_event the INSERT, both broadcasts and the normal return are guarded by typestate obligations 'validated(this event)' on every path.",
    "note": "Assumed: SHA-256 / BIP-340 / delegation signature checks are the uninterpreted predicate Event.verify() (aionostr source read, coincurve trusted); Event.compute_id is an uninterpreted function returning a lowercase 64-hex digest; the validator list contains is_signed (configuration)." + _LMDB_PENDING + " cli bulk load and add_service_event reach storage only through add_event (by inspection, not yet an obligation).",
}
CLAIMED["C06"] = {
    "category": "proof",
    "text": "web.start_client: per-iteration postconditions over every path of the handler loop -- an EVENT message is answered by exactly one OK (at most one when the connection is being closed), the OK flag and id equal what storage.add_event returned, false when it raised or when rate-limited, add_event is called at most once per message, no OK for other commands. DBStorage.add_event: returned flag == 'row newly inserted', a duplicate leaves every row as it was (outside one listed finding class), broadcast exactly once iff newly stored and only after commit, every exceptional exit leaves the store unchanged (rollback) and broadcasts nothing.",
    "note": "Assumed: SQL model of contracts/sqlmodel.py (INSERT OR IGNORE semantics, rollback on exception), websocket/json models." + _LMDB_PENDING + " 'A valid event is never refused except as a duplicate' is not stated as an obligation yet (IndexError/ValueError edges in pre_save/process_tags are allowed by the contracts).",
}
CLAIMED["C07"] = {
    "category": "proof",
    "text": "Code-side atomicity obligations for the SQL backend: every statement issued while applying an event runs on the connection of the single `async with self.db.begin()` block (typestate obligation at every conn.execute), no nested or second transaction (delete_event requires 'no transaction open'), an exception raised by any statement -- every execute has a failing edge -- leaves the block through its exceptional exit so that the store equals its state at entry, both broadcasts require 'transaction closed', the add slot is released on every exit.",
    "note": "The crash/atomic-commit behaviour of SQLite/PostgreSQL itself is ASSUMED (one engine transaction is atomic and durable); no deductive tool here reaches into the engine." + _LMDB_PENDING,
}
CLAIMED["C08"] = {
    "category": "proof",
    "text": "DBStorage.process_tags is verified in both directions over an arbitrary row r0 (skolemised forall): a row disappears only if the event is kind 5, the row's pubkey equals the deleter's and its id is referenced by an e tag; and every such row does disappear; no row is added. post_save and add_event carry the frame to the whole admission path.",
    "note": "SQL model assumed (DELETE removes exactly the rows satisfying WHERE)." + _LMDB_PENDING + " Kind-5 deletion is not restricted to OLDER events on the SQL backend (the property allows 'at least all older').",
}
CLAIMED["C09"] = {
    "category": "proof",
    "text": "DBStorage.pre_save: a row is superseded only if the new event is (parameterised) replaceable and the row has the same pubkey, the same kind, a strictly smaller created_at and -- for kinds 30000-39999 -- the same d-value, where the d-value is specified independently as 'second item of the FIRST d tag, empty if bare or absent' and related to the code's list comprehension by an order-preserving rank function; regular events touch nothing. post_save: kinds 0/3 remove only older same-author same-kind rows. Completeness (every older version is removed) is stated and is a listed known finding.",
    "note": "SQL model assumed; stored rows and the new event have non-empty tags (store invariant established by is_canonical)." + _LMDB_PENDING,
}
CLAIMED["C13"] = {
    "category": "proof",
    "text": "BaseStorage.subscribe: every normal return either started the new subscription (registered under its id, marked started) or put exactly one (sub_id, None) EOSE sentinel and registered nothing; refusals raise StorageError/AuthenticationError and leave the connection's other subscriptions intact; len(subs) <= subscription_limit is preserved; the old subscription under a reused id is cancelled; other ids and other connections untouched (skolemised). BaseStorage.unsubscribe: removes exactly that id, cancels its task, never raises; None drops the connection. web.start_client: a refused REQ is answered by exactly one NOTICE, an accepted one by none, every REQ reaches storage unless rate-limited.",
    "note": "Not covered yet: the query tasks (run_query) putting the sentinel exactly once on every path, send_subscriptions turning it into one EOSE; interleavings (replacement while the query task runs) are outside this technique (assumption A4).",
}
CLAIMED["C19"] = {
    "category": "proof",
    "text": "web.start_client: no exception escapes the handler on any of its ~300 paths (every implicit exception edge of JSON indexing, every failing dependency call is routed through the handler ladder), the loop continues only without having closed the connection, and on every exit unsubscribe(client) ran exactly once, the limiter cleanup ran, and the sender task (if created) was cancelled and awaited with CancelledError contained. validate_message is exact. subscribe/unsubscribe error mapping as in C13.",
    "note": "Not covered: 'never wedges' (the doubling throttle is a liveness matter), effects on other connections, cancellation delivered at an arbitrary await (A4). rate_limiter is assumed non-None (get_rate_limiter always returns an object).",
}
CLAIMED["C05"] = {
    "category": "proof",
    "text": "notify_all_connected creates exactly one notify(event) task per subscription yielded by the registry iteration and none for anything else; BaseSubscription.notify pushes (own sub_id, event) exactly once iff check_event matches and the output validator allows; subscribe/unsubscribe maintain the registry exactly (see C13); add_event broadcasts only newly stored events.",
    "note": "Not covered yet: the matching function check_event itself against NIP-01 and against the stored-query predicate (planned), interleavings of concurrent connections (outside this technique, A4); that dict.values() yields every value once is assumed.",
}

CLAIMED["C04"] = {
    "category": "proof",
    "text": "util.event_as_json: for every canonical event and every subscription id the returned text lies in the regular language of well-formed EVENT frames (JSON string literals as produced by encode_basestring, hex strings, decimal integers, the tag array built by two nested joins) -- decided as a regular-language inclusion of the language tracked through the f-strings/joins in the language of the frame grammar -- and carries each scalar field under its own key with its own value and the client's subscription id (JSON-encoded). web.send_subscriptions: every item taken from the queue yields at most one frame, and the frame handed to the socket is a well-formed EVENT frame (via event_as_json's contract) or EOSE frame carrying that item's subscription id. DBStorage.add_event: the INSERT parameters are exactly the submitted event's fields (id/pubkey/sig through bytes.fromhex).",
    "note": "Assumed: json.encoder.encode_basestring returns a JSON string literal decoding to its argument; rapidjson produces the OK/NOTICE/AUTH frames from python lists; events reaching the serializer are canonical (is_canonical at admission, C03). Not covered yet: value-level equality of the tags array (only its shape), event_from_tuple / msgpack round trips, /e/<id>, integer tag items (modelled tags are lists of strings)." + _LMDB_PENDING,
}
CLAIMED["C17"] = {
    "category": "proof",
    "text": "QueryGarbageCollector.collect: executes exactly one statement whose text lies in the fixed grammar of the GC template with a single decimal literal, and that literal is str(int(now)) for the current clock read (a definition-time default would be caught: defaults are modelled as values unrelated to call time); the meaning of the statement's comparison 'tags.value < literal' is stated against the property (well-formed decimal timestamp earlier than now) -- that obligation is refuted and is the listed known finding (string comparison).",
    "note": "Assumed: SQL semantics of the statement as described in assumption GCSQL (kind range, TEXT comparison by code point). Not covered yet: the LMDB collector (KVGarbageCollector), ephemeral bypass in kv.add_event, the periodic driver.",
}
CLAIMED["C20"] = {
    "category": "proof",
    "text": "NotifyServer.handle_notify: every chunk consumed from an origin is exactly 32 bytes (a whole id), each registered peer other than the origin is written that same chunk exactly once per chunk, the origin never (no echo), nobody else; NotifyClient.connect: every read consumes exactly one whole id, each id read is looked up exactly once as its hex form and a found event is fanned out locally exactly once, EOF ends the loop quietly; NotifyClient.notify writes the 32 id bytes once.",
    "note": "Assumed: asyncio stream contracts (readexactly returns exactly n bytes in order or raises IncompleteReadError; write appends to the peer's stream), dict iteration yields each registered peer once. Not covered: peers joining/leaving while drain() yields (RuntimeError ends the origin's handler), the 2 s connect delay, events not yet written by the LMDB writer when the peer looks them up, notify_other_processes/setup wiring.",
}

CLAIMED["C10"] = {
    "category": "proof",
    "text": "Index.write is verified exact over the whole keyspace: for an arbitrary key k0, after write(event, txn, op) k0 is present iff (op == put if k0 is the suffixed form key+00+created_at+00+id of a key the index's convert() yields for the event, else as before); records untouched; clear = write(delete) through the same generator. TagIndex.convert yields exactly one key per indexable tag (single-letter, expiration, delegation with a value) under the tag's own name and value, nothing for other tags; to_key layouts of the tag/kind/created indexes are exact. WriterThread._delete_event clears every write index exactly once with the stored event inside the transaction; WriterThread.run: a committed add of a new event writes every write index exactly once with that event in one transaction, a failed task changes no key.",
    "note": "Assumed: LMDB put/delete/abort semantics, msgpack round trip of canonical events (decode(encode(e)) = e up to list/tuple), bytes.fromhex / int.to_bytes / str.encode are uninterpreted functions (no injectivity needed for these clauses); the index objects in write_indexes are pairwise distinct. Not covered: the global coherence invariant as one induction over histories (the per-operation exactness above is its step), reindex/bulk_update, PubkeyIndex/AuthorKindIndex/IdIndex convert (same shape as the verified ones), interrupted reindex histories.",
}
CLAIMED["C12"] = {
    "category": "proof",
    "text": "kv.execute_one_plan returns at most plan.limit events (loop invariant count == len(events) <= limit on every path, including failing scans) and only events the matcher yielded. The recency clause and the SQL backend are decided by a BOUNDED stand-in only (see C02 for the scope): with limits 0, 1, 2 at most that many events come back, no left-out matching event is newer than a returned one, a limit above the number of matches truncates nothing; two-filter REQs respect each filter's own limit.",
    "note": "The bounded part is reported under coverage.bounded and is not counted among the proved obligations. Not covered yet by a contract: planner's cap at max_limit (fixed in 6e3c27b; exercised by the witness only), build_query's LIMIT literal. Listed findings: LMDB multi-value / chained plans are not newest-first across values; the SQL statement has one LIMIT for all filters of a REQ. Fixed: SQL limit 0 (1c677d1), LMDB cap (6e3c27b).",
}

_BOUNDED = ("BOUNDED STAND-IN, not a proof: kv.Index.scanner is a generator closure over an LMDB cursor and the SQL answer is computed by the engine; "
            "neither is within reach of the contract verifier, so the clause is decided for a stated small scope only by running the real functions: ")
CLAIMED["C02"] = {
    "category": "exploration",
    "text": _BOUNDED + "every store of <= 2 (quick) / <= 3 (thorough) events out of a 29-event universe built around the byte-order neighbours the property names (ids/pubkeys starting 00/7f/ff, kinds 0/1/2/256, tag values ''/'a'/'ab'/'b', shared timestamps, one event with two values of a tag) x 227 filters (single/multi-value ids, authors, kinds, author+kind, tags, chained indexes, 8 time windows) x 120 two-filter REQs, on both backends: every stored event matching the filter and strictly inside the window is returned, exactly once per filter, and between one and k times for a k-filter REQ. Real kv.planner / Index.scanner / MultiIndex.scanner / matcher / execute_one_plan over the in-memory lmdb stand-in; real DBStorage.add_event and Subscription.build_query over sqlite.",
    "note": "Exhaustive within the stated bound, nothing beyond it; never counted as proved. Deductive parts that carry pieces of this property are claimed elsewhere: C12 (execute_one_plan count/limit), C01 (residual predicate compiled only from validated literals), C10 (Index.write exactness: which keys exist). Six genuine LMDB defects found by this check were repaired (fix commits b2adb33, 98c6381, b2dfdd3, 32cc593, e0dd6ce, 8d7589f); one SQL defect is a listed finding (one LIMIT for all filters of a REQ).",
    "technique": "bounded stand-in for contract-based verification (exhaustive small-scope enumeration of the real code against an independent oracle); labelled bounded",
}
CLAIMED["C11"] = {
    "category": "exploration",
    "text": _BOUNDED + "same universe, stores and filters as C02, on both backends: (a) for every store S, every event x of S and every filter that x definitely does not match, the answer over S equals the answer over S minus x; (b) for every pair of filters where one demands at least what the other demands (extra condition, value subset, narrower window), the stronger filter's answer is a subset; (c) a multi-valued condition returns exactly the union of its single values.",
    "note": "Exhaustive within the stated bound, nothing beyond it; never counted as proved. Two genuine LMDB defects in exactly this area were found and repaired (32cc593 scan started inside the keys of longer values, 8d7589f exclusive created_at bounds).",
    "technique": "bounded stand-in for contract-based verification (exhaustive small-scope enumeration of the real code, metamorphic relations between paired runs); labelled bounded",
}
NOT_APPLICABLE = {}
