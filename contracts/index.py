"""
Index of sidecar contract modules, per-property metadata, known findings, replay dispatch.
"""
import importlib
import json
import os
import subprocess
import sys

ROOT = os.path.dirname(os.path.dirname(os.path.abspath(__file__)))
MODULES = [
    "contracts.common",
    "contracts.rate_limiter",
    "contracts.validators",
    "contracts.dynamic_lists",
    "contracts.auth",
    "contracts.web",
    "contracts.base",
    "contracts.db",
    "contracts.util",
    "contracts.dbquery",
    "contracts.notifier",
    "contracts.gc",
    "contracts.kv",
]
for m in MODULES:
    importlib.import_module(m)
from .common import REG, ASSUMPTIONS  # noqa: E402

KNOWN_FINDINGS = []
_kf = os.path.join(ROOT, "known_findings.json")
if os.path.exists(_kf):
    KNOWN_FINDINGS = json.load(open(_kf)).get("findings", [])

COMMON_ASSUMPTIONS = ["A1", "A6", "A7"]

_TB = ["z3 SMT solver (cvc5 for string queries z3 leaves open)", "pyvc VC generator (/verif/pyvc)", "CPython ast module"]
from .bounded import query_enum_check, roundtrip_check, gc_check, roles_check, atomic_check, script_check, ack_check  # noqa: E402
from .census import census_check  # noqa: E402

_TBB = ["CPython executing the real functions", "in-memory lmdb/msgpack stand-ins (/verif/stubs)", "sqlite3", "the NIP-01 oracle in /verif/bounded/query_enum.py"]
PROPERTIES = {
    # (the round trip is part of "delivers each of them before EOSE": an event whose frame cannot be built is never sent)
    "C02": {"level": "exploration", "trusted_base": _TBB + _TB, "assumptions": ["EV", "LMDBSTUB", "ENUM", "RTRIP"],
            "extra_checks": [query_enum_check("C02"), roundtrip_check("C02")]},
    "C11": {"level": "exploration", "trusted_base": _TBB, "assumptions": ["EV", "LMDBSTUB", "ENUM"], "extra_checks": [query_enum_check("C11")]},
    "C12": {"level": "proof", "trusted_base": _TB, "assumptions": ["EV", "LMDB", "SQL", "ENUM", "STARTUP"],
            "extra_checks": [query_enum_check("C12"),
                             script_check("C12", "startup_enum.py", "configured-cap-in-effect", "bounded stand-in (fresh interpreters, real start-up paths)",
                                          "one case per documented start-up order with a configuration file setting max_limit = 3")]},
    "C10": {"level": "proof", "trusted_base": _TB, "assumptions": ["EV", "LMDB", "COHENUM", "LMDBSTUB"],
            "extra_checks": [script_check("C10", "coherence_enum.py", "keyspace-coherence-over-histories",
                                          "bounded stand-in (real LMDBStorage / WriterThread.run / collector over the in-memory lmdb stand-in)",
                                          "one case per operation of every history of <= 4 (thorough 5) operations out of 21, plus one per injected engine error "
                                          "(every put/delete of the last operation of histories <= 3 (4)); states reached twice are expanded once")]},
    "C17": {"level": "proof", "trusted_base": _TB, "assumptions": ["A3", "GCSQL", "SQL", "GCENUM"], "extra_checks": [gc_check("C17")]},
    "C20": {"level": "proof", "trusted_base": _TB, "assumptions": ["TCP", "A4", "EV"]},
    "C01": {"level": "proof", "trusted_base": _TB, "assumptions": ["REPL", "REPR", "INDUCT-ATOMS", "SQL", "ENUM", "LMDBSTUB"], "extra_checks": [query_enum_check("C01")]},
    "C04": {"level": "proof", "trusted_base": _TB, "assumptions": ["EV", "ENC", "JSON", "SQL", "RTRIP"], "extra_checks": [roundtrip_check("C04")]},
    "C03": {"level": "proof", "trusted_base": _TB, "assumptions": ["EV", "SQL", "JSON"], "extra_checks": [census_check("C03")]},
    "C05": {"level": "proof", "trusted_base": _TB, "assumptions": ["EV", "A4", "ENUM"], "extra_checks": [query_enum_check("C05")]},
    "C06": {"level": "proof", "trusted_base": _TB, "assumptions": ["EV", "SQL", "WS", "JSON", "A4", "ACKENUM", "LMDBSTUB"], "extra_checks": [ack_check("C06")]},
    "C07": {"level": "proof", "trusted_base": _TB, "assumptions": ["EV", "SQL", "ATOMIC"], "extra_checks": [atomic_check("C07")]},
    "C08": {"level": "proof", "trusted_base": _TB, "assumptions": ["EV", "SQL"]},
    "C09": {"level": "proof", "trusted_base": _TB, "assumptions": ["EV", "SQL"]},
    "C13": {"level": "proof", "trusted_base": _TB, "assumptions": ["WS", "JSON", "A4"]},
    "C19": {"level": "proof", "trusted_base": _TB, "assumptions": ["WS", "JSON", "A4"]},
    "C15": {"level": "proof", "trusted_base": ["z3 SMT solver", "pyvc VC generator (/verif/pyvc)", "CPython ast module"], "assumptions": ["A3", "EV", "AUTHENUM"],
            "extra_checks": [script_check("C15", "auth_enum.py", "configured-urls-are-compared-whole",
                                          "bounded stand-in (real Authenticator built from each spelling of relay_urls, real check_auth_event on signed answers)",
                                          "one case per (relay_urls spelling: absent / string / list of one / list of two / tuple) x (relay tag: each configured url, "
                                          "its prefixes, suffixes, inner substrings, superstrings, '', an unrelated url) x (challenge: issued, a prefix of it, '')")]},
    "C14": {"level": "proof", "trusted_base": ["z3 SMT solver", "pyvc VC generator (/verif/pyvc)", "CPython ast module"], "assumptions": ["EV", "ROLES"],
            "extra_checks": [census_check("C14"), roles_check("C14")]},
    "C16": {
        "level": "proof",
        "trusted_base": ["z3 SMT solver", "pyvc VC generator (/verif/pyvc)", "CPython ast module"],
        "assumptions": ["A3", "EV"],
        "extra_checks": [census_check("C16")],
    },
    "C18": {
        "level": "proof",
        "trusted_base": ["z3 4.x/5.1 SMT solver", "pyvc VC generator (this repository, /verif/pyvc)", "CPython ast module"],
        "assumptions": ["A3", "PARSEOPT"],
        "explanation": "",
        "extra_checks": [script_check("C18", "parse_option_enum.py", "configured-rules-are-the-enforced-rules", "bounded stand-in (real RateLimiter.parse_option against an independent parser)",
                                      "one case per option string of 1..3 distinct items out of 12 (all interval spellings, -1 and 0 rules)")],
    },
}

from . import rate_limiter as _rl  # noqa: E402

REPLAYERS = {  # unit key -> callable(name, instances) -> dict
    "nostr_relay/rate_limiter.py::RateLimiter.evaluate_rules": _rl.replay_evaluate_rules,
}


def assumptions_for(prop):
    info = PROPERTIES[prop]
    out = []
    for k in COMMON_ASSUMPTIONS + info.get("assumptions", []):
        out.append("%s: %s" % (k, ASSUMPTIONS.get(k, "")))
    for t in info.get("extra_assumptions", []):
        out.append(t)
    return out


def run_witness(path, timeout=120):
    env = dict(os.environ)
    env["PYTHONPATH"] = os.environ.get("PYVC_REPO", "/repo") + os.pathsep + os.path.join(ROOT, "stubs") + os.pathsep + ROOT
    p = subprocess.run([sys.executable, os.path.join(ROOT, path)], capture_output=True, text=True, timeout=timeout, env=env,
                       cwd=os.environ.get("PYVC_REPO", "/repo"))
    return p.returncode, (p.stdout + p.stderr)[-1500:]


def finding_still_fails(f, reports):
    if f.get("witness"):
        try:
            rc, out = run_witness(f["witness"])
        except Exception as e:  # noqa
            return True
        return rc == 1
    for rep in reports:
        if rep.get("pass_name") == "finding:" + f["id"]:
            for o in rep["obligations"]:
                if any(p in o["name"] for p in f.get("obligations", [])) and o["status"] != "discharged":
                    return True
    return False


def try_replay(prop, unit, name, insts):
    if unit.startswith("bounded:"):
        # found by executing the real functions on the recorded store and filter: the case is its own failing input
        return {"replayed": True, "confirmed": True, "how": "case produced by running the real code (bounded enumeration); re-run with ./check %s --replay <this file>" % prop,
                "case": insts[0].get("example")}
    fn = REPLAYERS.get(unit)
    if fn is None:
        return {"replayed": False, "reason": "no native replay driver for this unit; the obligation, path and solver model are recorded"}
    return fn(name, insts)


def replay(prop, path):
    rp = json.load(open(os.path.join(ROOT, path) if not os.path.isabs(path) else path))
    print(json.dumps({k: rp[k] for k in ("property", "obligation", "unit", "function")}, indent=1))
    if rp["unit"] == "bounded:storage-entry-census":
        from .census import scan, ALLOWED
        sites, _n = scan(os.environ.get("PYVC_REPO", "/repo"))
        bad = [x for x in sites if x[3].split(" ")[0] not in ALLOWED[x[0]] or "(" in x[3]]
        print(json.dumps(bad, indent=1))
        if bad:
            print("VIOLATION property=%s replay=%s" % (prop, path))
        return 1 if bad else 0
    if rp["unit"] == "bounded:garbage-collection-pass":
        ex = rp["instances"][0].get("example", {})
        env = dict(os.environ)
        env["PYTHONPATH"] = ROOT
        p = subprocess.run([sys.executable, os.path.join(ROOT, "bounded", "gc_enum.py"), "--backend", ex.get("backend", "sql")], env=env, capture_output=True, text=True)
        print(p.stdout[-2000:])
        bad = [l for l in p.stdout.splitlines() if l.startswith("FAIL") and " None " in l]
        if bad:
            print("VIOLATION property=%s replay=%s" % (prop, path))
        return 1 if bad else 0
    if rp["unit"] == "bounded:acknowledgement-agrees-with-the-store":
        ex = rp["instances"][0].get("example", {})
        env = dict(os.environ)
        env["PYTHONPATH"] = ROOT
        p = subprocess.run([sys.executable, os.path.join(ROOT, "bounded", "ack_enum.py"), "--backend", ex.get("backend", "sql")], env=env, capture_output=True, text=True)
        print(p.stdout[-2000:])
        listed = {f["bounded_class"] for f in KNOWN_FINDINGS if f["property"] == prop and f.get("bounded_class") and f.get("status", "open") == "open"}
        bad = [l for l in p.stdout.splitlines() if l.startswith("FAIL") and not (l.split()[1] == "acknowledged-true-but-not-retrievable" and l.split()[2] in listed)]
        if bad:
            print("VIOLATION property=%s replay=%s" % (prop, path))
        return 1 if bad else 0
    if rp["unit"] == "bounded:role-storage-roundtrip":
        env = dict(os.environ)
        env["PYTHONPATH"] = ROOT
        p = subprocess.run([sys.executable, os.path.join(ROOT, "bounded", "roles_enum.py")], env=env, capture_output=True, text=True)
        print(p.stdout[-2000:])
        if "FAIL " in p.stdout:
            print("VIOLATION property=%s replay=%s" % (prop, path))
            return 1
        return 0
    if rp["unit"] == "bounded:engine-error-injection":
        env = dict(os.environ)
        env["PYTHONPATH"] = ROOT
        p = subprocess.run([sys.executable, os.path.join(ROOT, "bounded", "atomic_enum.py")], env=env, capture_output=True, text=True)
        print(p.stdout[-2000:])
        if "FAIL " in p.stdout:
            print("VIOLATION property=%s replay=%s" % (prop, path))
            return 1
        return 0
    ex0 = (rp["instances"][0].get("example") or {}) if rp.get("instances") else {}
    if rp["unit"].startswith("bounded:") and isinstance(ex0, dict) and ex0.get("script"):
        env = dict(os.environ)
        env["PYTHONPATH"] = ROOT
        p = subprocess.run([sys.executable, os.path.join(ROOT, "bounded", ex0["script"])], env=env, capture_output=True, text=True)
        print(p.stdout[-2000:])
        if "FAIL " in p.stdout:
            print("VIOLATION property=%s replay=%s" % (prop, path))
            return 1
        return 0
    if rp["unit"] == "bounded:store-and-serve-roundtrip":
        env = dict(os.environ)
        env["PYTHONPATH"] = ROOT
        p = subprocess.run([sys.executable, os.path.join(ROOT, "bounded", "roundtrip_enum.py")], env=env, capture_output=True, text=True)
        print(p.stdout[-2000:])
        kind = rp["instances"][0].get("kind", "")
        if ("FAIL " + kind) in p.stdout:
            print("VIOLATION property=%s replay=%s" % (prop, path))
            return 1
        return 0
    if rp["unit"].startswith("bounded:"):
        case = rp["instances"][0]["example"]
        tmp = os.path.join(ROOT, "replays", "_case.json")
        json.dump(case, open(tmp, "w"))
        env = dict(os.environ)
        env["PYTHONPATH"] = ROOT
        p = subprocess.run([sys.executable, os.path.join(ROOT, "bounded", "query_enum.py"), "--case", tmp], env=env, capture_output=True, text=True)
        print(p.stdout + p.stderr[-500:])
        if p.returncode == 1:
            print("VIOLATION property=%s replay=%s" % (prop, path))
        return p.returncode
    out = try_replay(prop, rp["unit"], rp["obligation"], rp["instances"])
    print(json.dumps(out, indent=1, default=str))
    if out.get("replayed") and out.get("confirmed"):
        print("VIOLATION property=%s replay=%s" % (prop, path))
        return 1
    return 0
