"""
Sidecar contracts for nostr_relay/rate_limiter.py  (property C18).
"""
import z3
from pyvc import vals as V
from pyvc.vals import Val, Ref, Func, Conc, NONE
from pyvc.sx import R, Exc, LoopSpec
from .common import REG, Contract, Unit, SpecFunc, LOGGER, clock_read, lemma

P = "nostr_relay/rate_limiter.py"
RULES = V.List(V.Tuple(V.Int, V.Int))
TS = V.List(V.Real)

# ---- spec functions -------------------------------------------------------------------------
REG.spec_funcs["cnt"] = SpecFunc(
    REG, "cnt", [("ts", TS), ("k", V.Int), ("now", V.Real), ("I", V.Real)], V.Int,
    """
def cnt(ts, k, now, I):
    # number of the first k recorded timestamps that lie in the window of length I ending at `now`
    if k <= 0:
        return 0
    return cnt(ts, k - 1, now, I) + (1 if (now - ts[k - 1]) < I else 0)
""", recursive=True)

lemma("cnt_mono", [("ts", TS), ("k", V.Int), ("j", V.Int), ("now", V.Real), ("I", V.Real)],
      "0 <= k and k <= j",
      "cnt(ts, k, now, I) <= cnt(ts, j, now, I)",
      induct="j", base="k", props=["C18"])

lemma("cnt_nonneg", [("ts", TS), ("j", V.Int), ("now", V.Real), ("I", V.Real)],
      "0 <= j", "cnt(ts, j, now, I) >= 0 and cnt(ts, j, now, I) <= j", induct="j", base="0", props=["C18"])

lemma("cnt_zero_outside", [("ts", TS), ("j", V.Int), ("now", V.Real), ("I", V.Real)],
      "0 <= j and all_range(0, j, lambda i: now - ts[i] >= I)", "cnt(ts, j, now, I) == 0", induct="j", base="0", props=["C18"])

# ---- classes ---------------------------------------------------------------------------------
REG.classes["RateLimiter"] = {
    "log": lambda sx, st, name: LOGGER,
    "_starttime": V.Real,
}


@REG.method("RateLimiter", "_timestamp")
def _timestamp(sx, args, kwargs, st, node):
    return [R(st, clock_read(sx, st, "now"))]


def setup_clock(sx, st, params):
    st.ghost["clock"] = sx.fresh(V.Real, "clock0", st)


NOW = "ghost('clock')"
OLD_TS = "old(timestamps)"
CNT_ALL = "cnt(%s, len(%s), %s, rules[q][0])" % (OLD_TS, OLD_TS, NOW)

evaluate_rules = REG.unit(Unit(
    P, "RateLimiter.evaluate_rules",
    Contract(
        "RateLimiter.evaluate_rules",
        {"self": V.ObjT("RateLimiter"), "rules": RULES, "timestamps": TS},
        requires=[
            ("rules-nonempty", "len(rules) > 0"),
            ("sorted-desc", "forall(lambda i, j: implies(0 <= i and i <= j and j < len(timestamps), timestamps[i] >= timestamps[j]))"),
        ],
        ensures=[
            # property: a message is refused only when some applicable rule already passed n messages in its interval
            ("refused-only-if-rule-exhausted",
             "implies(result, any_range(0, len(rules), lambda q: rules[q][1] >= 0 and %s >= rules[q][1]))" % CNT_ALL),
            # property: never more than n admitted in a window: admission requires every rule to have room
            ("admitted-only-if-room",
             "implies(not result, all_range(0, len(rules), lambda q: implies(rules[q][1] >= 0, %s < rules[q][1])))" % CNT_ALL),
            # frame: history is kept, or dropped only when no entry can matter to any rule any more
            ("history-kept-or-irrelevant",
             "timestamps == %s or (len(timestamps) == 0 and all_range(0, len(%s), lambda i: all_range(0, len(rules), lambda q: %s - %s[i] >= rules[q][0])))"
             % (OLD_TS, OLD_TS, NOW, OLD_TS)),
            ("clock-monotone", "%s >= old(%s)" % (NOW, NOW)),
        ],
        modifies=["timestamps", "ghost.clock"],
        returns=V.Bool,
    ),
    loops={
        "rules": LoopSpec("rules", index="_r", invariants=[
            ("earlier-rules-have-room",
             "all_range(0, _r, lambda q: implies(rules[q][1] >= 1, cnt(timestamps, len(timestamps), now, rules[q][0]) < rules[q][1]))"),
            ("ts-unchanged", "timestamps == %s" % OLD_TS),
        ]),
        "timestamps": LoopSpec("timestamps", index="_k", invariants=[
            ("count-is-cnt", "count == cnt(timestamps, _k, now, interval)"),
            ("below-freq", "implies(freq >= 1, count < freq)"),
        ]),
    },
    props=["C18"],
    setup=setup_clock,
    hints={
        "post:refused-only-if-rule-exhausted": ["cnt_mono(timestamps, _k + 1, len(timestamps), now, interval)",
                                                "cnt_nonneg(timestamps, _k, now, interval)"],
        "post:admitted-only-if-room": ["cnt_nonneg(timestamps, len(timestamps), now, 0)"],
    },
    canaries=[("always-admits", "not result"), ("never-clears", "len(timestamps) == len(%s)" % OLD_TS)],
))
