"""
Sidecar contracts for nostr_relay/rate_limiter.py  (property C18).
"""
import z3
from pyvc import vals as V
from pyvc.vals import Val, Ref, Func, Conc, NONE
from pyvc.sx import R, Exc, LoopSpec, fresh_name
from .common import REG, Contract, Unit, SpecFunc, LOGGER, clock_read, lemma

P = "nostr_relay/rate_limiter.py"
RULES = V.List(V.Tuple(V.Int, V.Int))
TS = V.List(V.Real)

# ---- spec functions -------------------------------------------------------------------------
REG.spec_funcs["cnt"] = SpecFunc(
    REG, "cnt", [("ts", TS), ("k", V.Int), ("now", V.Real), ("I", V.Real)], V.Int,
    """
def cnt(ts, k, now, I):
    # number of the first k recorded timestamps that lie in the window of length I ending at `now`
    if k <= 0:
        return 0
    return cnt(ts, k - 1, now, I) + (1 if (now - ts[k - 1]) < I else 0)
""", recursive=True)

lemma("cnt_mono", [("ts", TS), ("k", V.Int), ("j", V.Int), ("now", V.Real), ("I", V.Real)],
      "0 <= k and k <= j",
      "cnt(ts, k, now, I) <= cnt(ts, j, now, I)",
      induct="j", base="k", props=["C18"])

lemma("cnt_nonneg", [("ts", TS), ("j", V.Int), ("now", V.Real), ("I", V.Real)],
      "0 <= j", "cnt(ts, j, now, I) >= 0 and cnt(ts, j, now, I) <= j", induct="j", base="0", props=["C18"])

lemma("cnt_zero_outside", [("ts", TS), ("j", V.Int), ("now", V.Real), ("I", V.Real)],
      "0 <= j and all_range(0, j, lambda i: now - ts[i] >= I)", "cnt(ts, j, now, I) == 0", induct="j", base="0", props=["C18"])

# ---- classes ---------------------------------------------------------------------------------
REG.classes["RateLimiter"] = {
    "log": lambda sx, st, name: LOGGER,
    "_starttime": V.Real,
}


@REG.method("RateLimiter", "_timestamp")
def _timestamp(sx, args, kwargs, st, node):
    return [R(st, clock_read(sx, st, "now"))]


def setup_clock(sx, st, params):
    st.ghost["clock"] = sx.fresh(V.Real, "clock0", st)


NOW = "ghost('clock')"
OLD_TS = "old(timestamps)"

REG.spec_funcs["sorted_desc"] = SpecFunc(
    REG, "sorted_desc", [("ts", TS)], V.Bool, opaque=True, src="""
def sorted_desc(ts):
    return forall(lambda i, j: implies(0 <= i and i <= j and j < len(ts), ts[i] >= ts[j]))
""")

REG.spec_funcs["exhausted"] = SpecFunc(
    REG, "exhausted", [("rules", RULES), ("ts", TS), ("now", V.Real)], V.Bool, opaque=True, src="""
def exhausted(rules, ts, now):
    # some rule (I, n) already has n recorded messages inside the window of length I ending now
    return any_range(0, len(rules), lambda q: rules[q][1] >= 0 and cnt(ts, len(ts), now, rules[q][0]) >= rules[q][1])
""")

REG.spec_funcs["has_room"] = SpecFunc(
    REG, "has_room", [("rules", RULES), ("ts", TS), ("now", V.Real)], V.Bool, opaque=True, src="""
def has_room(rules, ts, now):
    # every rule (I, n), n >= 0, has fewer than n recorded messages in its window: one more keeps the bound
    return all_range(0, len(rules), lambda q: implies(rules[q][1] >= 0, cnt(ts, len(ts), now, rules[q][0]) < rules[q][1]))
""")

REG.spec_funcs["irrelevant"] = SpecFunc(
    REG, "irrelevant", [("rules", RULES), ("ts", TS), ("now", V.Real)], V.Bool, opaque=True, src="""
def irrelevant(rules, ts, now):
    # no recorded timestamp lies in the window of any rule any more
    return all_range(0, len(ts), lambda i: all_range(0, len(rules), lambda q: now - ts[i] >= rules[q][0]))
""")

evaluate_rules = REG.unit(Unit(
    P, "RateLimiter.evaluate_rules",
    Contract(
        "RateLimiter.evaluate_rules",
        {"self": V.ObjT("RateLimiter"), "rules": RULES, "timestamps": TS},
        requires=[
            ("rules-nonempty", "len(rules) > 0"),
            ("sorted-desc", "sorted_desc(timestamps)"),
        ],
        ensures=[
            # property: a message is refused only when some applicable rule already passed n messages in its interval
            ("refused-only-if-rule-exhausted", "implies(result, exhausted(rules, %s, %s))" % (OLD_TS, NOW)),
            # property: never more than n admitted in a window: admission requires every rule to have room
            ("admitted-only-if-room", "implies(not result, has_room(rules, %s, %s))" % (OLD_TS, NOW)),
            # frame: history is kept, or dropped only when no entry can matter to any rule any more
            ("history-kept-or-irrelevant",
             "timestamps == %s or (len(timestamps) == 0 and irrelevant(rules, %s, %s))" % (OLD_TS, OLD_TS, NOW)),
            ("clock-monotone", "%s >= old(%s)" % (NOW, NOW)),
            ("stays-sorted", "sorted_desc(timestamps)"),
            ("refused-keeps-history", "implies(result, timestamps == %s)" % OLD_TS),
        ],
        modifies=["timestamps", "ghost.clock"],
        returns=V.Bool,
    ),
    loops={
        "rules": LoopSpec("rules", index="_r", invariants=[
            ("earlier-rules-have-room",
             "all_range(0, _r, lambda q: implies(rules[q][1] >= 1, cnt(timestamps, len(timestamps), now, rules[q][0]) < rules[q][1]))"),
            ("ts-unchanged", "timestamps == %s" % OLD_TS),
        ]),
        "timestamps": LoopSpec("timestamps", index="_k", invariants=[
            ("count-is-cnt", "count == cnt(timestamps, _k, now, interval)"),
            ("below-freq", "implies(freq >= 1, count < freq)"),
        ]),
    },
    props=["C18"],
    setup=setup_clock,
    hints={
        "post:refused-only-if-rule-exhausted": ["cnt_mono(timestamps, _k + 1, len(timestamps), now, interval)",
                                                "cnt_nonneg(timestamps, _k, now, interval)"],
        "post:admitted-only-if-room": [
            "all_range(0, len(rules), lambda q: cnt_zero_outside(old(timestamps), len(old(timestamps)), now, rules[q][0]))"],
    },
    canaries=[("always-admits", "not result"), ("never-clears", "len(timestamps) == len(%s)" % OLD_TS)],
))


# =============================================================================================
# is_limited / cleanup: state model
# =============================================================================================
class MapTy(V.Ty):
    """total map K -> V (python defaultdict: a missing key reads as the default/empty value)"""

    def __init__(self, k, v):
        self.k, self.v = k, v
        self.name = "Map[%r,%r]" % (k, v)

    def sort(self):
        return z3.ArraySort(self.k.sort(), self.v.sort())


INNER = MapTy(V.Str, TS)
RCMAP = MapTy(V.Str, INNER)
RULEMAP = V.Dict(V.Str, V.Dict(V.Str, RULES))

REG.classes["RecentCommands"] = {"map": RCMAP}
REG.classes["RateLimiter"].update({"rules": RULEMAP, "recent_commands": V.ObjT("RecentCommands")})


class ScopeView:
    """self.recent_commands[scope] : inner defaultdict(command -> deque)"""

    def __init__(self, rc_ref, k1):
        self.rc_ref = rc_ref
        self.k1 = k1

    def __pyvc_getitem__(self, sx, k2, st, node):
        from pyvc.sx import View

        rc_cell = self.rc_ref.cell
        k1, k2t = self.k1, k2.term

        def get(s):
            m = s.getcell(rc_cell)["map"]
            return Val(TS, z3.Select(z3.Select(m.term, k1), k2t))

        def set_(s, val):
            m = s.getcell(rc_cell)["map"]
            s.getcell(rc_cell)["map"] = Val(RCMAP, z3.Store(m.term, k1, z3.Store(z3.Select(m.term, k1), k2t, val.term)))

        cell = st.alloc(View(get, set_))
        for w in TS.wellformed(get(st).term):
            st.assume(w)
        return [R(st, Ref(TS, cell))]


@REG.hook("getitem", "RecentCommands")
def _rc_getitem(sx, obj, k, st, node):
    return [R(st, Conc(ScopeView(obj, k.term)))]


PACKED = REG.ufun("ip_packed", [z3.StringSort()], z3.StringSort())
VALID_IP = REG.ufun("valid_ip", [z3.StringSort()], z3.BoolSort())


def ip_facts(x):
    p = PACKED(x)
    return [z3.Or(z3.Length(p) == 4, z3.Length(p) == 16), x != z3.StringVal("global"), x != z3.StringVal("ip"),
            # an IPv4 literal contains a dot and an IPv6 literal a colon (ipaddress module)
            z3.Or(z3.Contains(x, z3.StringVal(".")), z3.Contains(x, z3.StringVal(":")))]


class IPObj:
    def __init__(self, x):
        self.x = x

    def __pyvc_getattr__(self, sx, attr, st, node):
        if attr == "packed":
            return [R(st, Val(V.Bytes, PACKED(self.x)))]
        raise Exception("ip attr " + attr)


@REG.model("ip_address")
def _ip_address(sx, args, kwargs, st, node):
    """ipaddress.ip_address (ASSUMED): ValueError unless the string is an IPv4/IPv6 literal; .packed has 4 or 16 bytes
    and is injective on valid literals up to textual normalisation"""
    x = args[0].term
    outs = []
    if not sx.spec_mode:
        s2 = st.fork().assume(z3.Not(VALID_IP(x)))
        if sx.feasible(s2):
            outs.append(R(s2, None, Exc("ValueError")))
        st.assume(VALID_IP(x))
    for f in ip_facts(x):
        st.assume(f)
    outs.append(R(st, Conc(IPObj(x))))
    return outs


@REG.model("valid_ip")
def _valid_ip(sx, args, kwargs, st, node):
    return [R(st, Val(V.Bool, VALID_IP(args[0].term)))]


@REG.model("packed")
def _packed(sx, args, kwargs, st, node):
    for f in ip_facts(args[0].term):
        st.assume(z3.Implies(VALID_IP(args[0].term), f))
    return [R(st, Val(V.Bytes, PACKED(args[0].term)))]


@REG.model("dq")
def _dq(sx, args, kwargs, st, node):
    """spec accessor: the deque of (scope key, command) -- dq(self.recent_commands, scope, command)"""
    rc, k1, k2 = args
    m = st.getcell(rc.cell)["map"]
    k1 = sx.lift(k1) if isinstance(k1, Conc) else k1
    k2 = sx.lift(k2) if isinstance(k2, Conc) else k2
    return [R(st, Val(TS, z3.Select(z3.Select(m.term, k1.term), k2.term)))]


@REG.model("rcmap")
def _rcmap(sx, args, kwargs, st, node):
    return [R(st, st.getcell(args[0].cell)["map"])]


REG.spec_funcs["rep"] = SpecFunc(
    REG, "rep", [("ts", TS), ("now", V.Real)], V.Bool,
    """
def rep(ts, now):
    # representation invariant of one deque: newest first, nothing from the future (the head is the newest)
    return sorted_desc(ts) and (len(ts) == 0 or ts[0] <= now)
""")

lemma("sorted_cons", [("d", TS), ("r", TS)],
      "sorted_desc(d) and len(r) == len(d) + 1 and all_range(1, len(r), lambda i: r[i] == d[i - 1]) and (len(d) == 0 or r[0] >= d[0])",
      "sorted_desc(r)", props=["C18"])
lemma("sorted_empty", [("d", TS)], "len(d) == 0", "sorted_desc(d)", props=["C18"])

REG.spec_funcs["applicable"] = SpecFunc(
    REG, "applicable", [("rules", RULEMAP), ("key", V.Str), ("command", V.Str)], V.Bool,
    """
def applicable(rules, key, command):
    return key in rules and bool(rules[key]) and command in rules[key]
""")



def REP(scope):
    return "rep(dq(self.recent_commands, %s, %s), %s)" % (scope[0], scope[1], NOW)


def setup_limiter(sx, st, params):
    st.ghost["clock"] = sx.fresh(V.Real, "clock0", st)
    # evaluate_rules' contract requires non-empty rule lists: parse_option never stores an empty list for a
    # command that appears; here it is an object invariant of self.rules
    selfobj = st.getcell(params["self"].cell)
    rules = st.getcell(selfobj["rules"].cell)
    k = z3.String(fresh_name("rk"))
    c = z3.String(fresh_name("rc"))
    inner = RULEMAP.v
    rl = z3.Select(inner.map(z3.Select(RULEMAP.map(rules.term), k)), c)
    st.assume(z3.ForAll([k, c], RULES.n(rl) > 0))


CMD = "message[0]"
SCOPES = [("b'global'", CMD), ("packed(client_address)", CMD), ("s0", "c0")]
OLD_DQ_IP = "old(dq(self.recent_commands, packed(client_address), message[0]))"
OLD_DQ_G = "old(dq(self.recent_commands, b'global', message[0]))"
is_limited_contract = Contract(
    "RateLimiter.is_limited",
    {"self": V.ObjT("RateLimiter"), "client_address": V.Str, "message": V.List(V.Str), "s0": V.Bytes, "c0": V.Str},
    requires=[("message-has-command", "len(message) >= 1")] + [("deque-wellformed-%d" % i, REP(sc)) for i, sc in enumerate(SCOPES)],
    ensures=[
        # (s0, c0) is an arbitrary scope/command pair (ghost parameters): every deque keeps its invariant
        ("deques-stay-wellformed", REP(("s0", "c0"))),
        # refused => nothing recorded: only admitted messages enter the history
        ("refused-leaves-no-record", "implies(result, dq(self.recent_commands, s0, c0) == old(dq(self.recent_commands, s0, c0)))"),
        # refused only when some applicable scope is exhausted (w.r.t. what was recorded before this message)
        ("refused-only-if-some-scope-exhausted",
         "implies(result, "
         "(applicable(self.rules, client_address, message[0]) and exhausted(self.rules[client_address][message[0]], %(ip)s, %(now)s))"
         " or (applicable(self.rules, 'global', message[0]) and exhausted(self.rules['global'][message[0]], %(g)s, %(now)s))"
         " or (applicable(self.rules, 'ip', message[0]) and exhausted(self.rules['ip'][message[0]], %(ip)s, %(now)s)))" % {"now": NOW, "ip": OLD_DQ_IP, "g": OLD_DQ_G}),
        # a specific-address rule overrides the generic ones
        ("specific-rule-overrides",
         "implies(applicable(self.rules, client_address, message[0]), "
         "dq(self.recent_commands, b'global', message[0]) == %s)" % OLD_DQ_G),
        # admitted => recorded (newest first) under the applicable generic scope when no specific rule exists
        ("admitted-is-recorded",
         "implies(not result and not applicable(self.rules, client_address, message[0]) and applicable(self.rules, 'global', message[0]), "
         "len(dq(self.recent_commands, b'global', message[0])) >= 1 and dq(self.recent_commands, b'global', message[0])[0] >= old(%s)"
         " and dq(self.recent_commands, b'global', message[0])[0] <= %s)" % (NOW, NOW)),
        ("no-rules-no-limit", "implies(not bool(self.rules), not result)"),
        # frame: only the deques of this command under 'global' and under this address can change
        ("frame", "implies(not ((s0 == b'global' or s0 == packed(client_address)) and c0 == message[0]), "
                  "dq(self.recent_commands, s0, c0) == old(dq(self.recent_commands, s0, c0)))"),
    ],
    raises={"ValueError": "not valid_ip(client_address)"},
    modifies=["self.recent_commands", "ghost.clock"],
    returns=V.Bool,
)
is_limited_contract.ghost_params = ("s0", "c0")
is_limited = REG.unit(Unit(
    P, "RateLimiter.is_limited", is_limited_contract,
    props=["C18"],
    setup=setup_limiter,
    canaries=[("never-limits", "not result")],
))
is_limited.reveal = ("applicable",)
is_limited.stmt_hints = [
    ("recent_timestamps.insert(0", {"_pre": "recent_timestamps"}, ["sorted_cons(_pre, recent_timestamps)"]),
]
evaluate_rules.reveal = ("*",)
evaluate_rules.ghost_const = ("clock",)


# =============================================================================================
# native replay (CPython) of counter-models of evaluate_rules
# =============================================================================================
def replay_evaluate_rules(name, insts):
    import collections
    import os
    import copy
    import sys
    from pyvc import native

    sys.path.insert(0, os.environ.get("PYVC_REPO", "/repo"))
    from nostr_relay.rate_limiter import RateLimiter

    label = name.split("/post:")[-1] if "/post:" in name else None
    con = evaluate_rules.contract
    post_src = dict(con.ensures).get(label)
    tried = []
    for inst in insts:
        inp = inst.get("inputs")
        if not inp or post_src is None:
            continue
        rules = [tuple(r) for r in inp["rules"]]
        ts = collections.deque(inp["timestamps"])
        now = inst.get("ghost", {}).get("clock", 0.0)
        clock0 = inst.get("ghost_entry", {}).get("clock", now)

        class RL(RateLimiter):
            def _timestamp(self):
                return now

        rl = RL({})
        pre = {"rules": rules, "timestamps": list(ts), "self": rl}
        try:
            result = rl.evaluate_rules(rules, ts)
        except Exception as e:  # noqa
            tried.append({"input": {"rules": rules, "timestamps": pre["timestamps"], "now": now}, "raised": repr(e)})
            continue
        post = {"rules": rules, "timestamps": list(ts), "self": rl, "result": result}
        overrides = {"sorted_desc": lambda t: all(t[i] >= t[j] for i in range(len(t)) for j in range(i, len(t)))}
        # precondition must hold natively, else the model is outside the contract (engine fault, not a violation)
        pre_ok = all(native.native_eval(REG, src, pre, pre, {"pre": {"clock": clock0}, "post": {"clock": clock0}}, overrides) for _, src in con.requires)
        holds = native.native_eval(REG, post_src, post, pre, {"pre": {"clock": clock0}, "post": {"clock": now}}, overrides)
        rec = {"input": {"rules": rules, "timestamps": pre["timestamps"], "now": now}, "observed_result": result,
               "timestamps_after": list(ts), "precondition_holds": bool(pre_ok), "postcondition": post_src, "postcondition_holds": bool(holds)}
        tried.append(rec)
        if pre_ok and not holds:
            return {"replayed": True, "confirmed": True, "how": "real RateLimiter.evaluate_rules called natively with the decoded counter-model; clock injected", **rec}
    return {"replayed": bool(tried), "confirmed": False, "tried": tried[:3]}


# ---------------------------------------------------------------------------------------------------- RateLimiter.cleanup (C19, C18)
# called from the `finally` of every connection handler: it must never raise (C19), must leave the global history alone and
# may only clear whole histories (C18).  Which histories it may clear w.r.t. the rules that apply to them is NOT stated here.
class RCItems:
    """self.recent_commands.items(): (scope key, inner mapping) for the scope keys present (ASSUMED: some set of keys, each once)"""

    def __init__(self, rc_ref):
        self.rc_ref = rc_ref

    def __pyvc_iter__(self, sx, st, node):
        return ("opaque", self)

    def next(self, sx, st, k):
        key = sx.fresh(V.Str, "scope_key", st)
        return [R(st, Conc((key, Conc(ScopeView(self.rc_ref, key.term)))))]


class InnerItems:
    """commands.items(): (command, deque) for the commands present in one scope"""

    def __init__(self, view):
        self.view = view

    def __pyvc_iter__(self, sx, st, node):
        return ("opaque", self)

    def next(self, sx, st, k):
        cmd = sx.fresh(V.Str, "cmd", st)
        outs = []
        for r in self.view.__pyvc_getitem__(sx, cmd, st, None):
            outs.append(R(r.st, Conc((cmd, r.val))))
        return outs


def _scopeview_getattr(self, sx, attr, st, node):
    if attr == "items":
        return [R(st, Func(lambda sx2, a, k, s, n: [R(s, Conc(InnerItems(self)))], "commands.items"))]
    raise Unsupported("inner mapping .%s" % attr, node)


def _scopeview_len(self, sx, st, node):
    n = sx.fresh(V.Int, "n_commands", st)     # number of commands present in this scope: unknown, non-negative
    st.assume(n.term >= 0)
    return [R(st, n)]


ScopeView.__pyvc_getattr__ = _scopeview_getattr
ScopeView.__pyvc_len__ = _scopeview_len


@REG.method("RecentCommands", "items", frame=[])
def _rc_items(sx, args, kwargs, st, node):
    return [R(st, Conc(RCItems(args[0])))]


@REG.hook("delitem", "RecentCommands")
def _rc_delitem(sx, obj, k, st, node):
    """del self.recent_commands[k]: the scope's histories are gone (a defaultdict recreates them empty); KeyError if absent"""
    m = st.getcell(obj.cell)["map"]
    absent = st.fork()
    c = z3.String(fresh_name("dc"))
    empty_inner = z3.Lambda([c], TS.empty())
    st.getcell(obj.cell)["map"] = Val(RCMAP, z3.Store(m.term, k.term, empty_inner))
    return [(st, None), (absent, Exc("KeyError"))]


cleanup = REG.unit(Unit(
    P, "RateLimiter.cleanup",
    Contract("RateLimiter.cleanup", {"self": V.ObjT("RateLimiter"), "s0": V.Bytes, "c0": V.Str},
             requires=[("deque-wellformed", REP(("s0", "c0")))],
             ensures=[
                 # C18: a history is either kept as it was or cleared as a whole -- never edited
                 ("histories-kept-or-cleared", "dq(self.recent_commands, s0, c0) == old(dq(self.recent_commands, s0, c0)) or len(dq(self.recent_commands, s0, c0)) == 0"),
                 ("global-history-untouched", "dq(self.recent_commands, b'global', c0) == old(dq(self.recent_commands, b'global', c0))"),
             ],
             raises={},       # C19: runs in the finally block of every connection handler
             modifies=["self.recent_commands", "ghost.clock"]),
    props=["C19", "C18"], setup=setup_limiter,
    canaries=[("never-returns", "False")],
))
cleanup.contract.ghost_params = ("s0", "c0")
cleanup.loops = {
    # loops keyed by the iterated expression, not by ordinal: adding or removing a loop elsewhere does not shift them
    "self.rules['ip'].values()": LoopSpec("ip-rules", index="_a", invariants=[]),
    "self.recent_commands.items()": LoopSpec("scopes", index="_b", invariants=[
        ("kept-or-cleared", "dq(self.recent_commands, s0, c0) == old(dq(self.recent_commands, s0, c0)) or len(dq(self.recent_commands, s0, c0)) == 0"),
        ("global-untouched", "dq(self.recent_commands, b'global', c0) == old(dq(self.recent_commands, b'global', c0))"),
        ("never-schedules-global", "all_range(0, len(to_del), lambda i: to_del[i] != 'global')"),
    ]),
    "commands.items()": LoopSpec("commands", index="_c", invariants=[
        ("kept-or-cleared", "dq(self.recent_commands, s0, c0) == old(dq(self.recent_commands, s0, c0)) or len(dq(self.recent_commands, s0, c0)) == 0"),
        ("global-untouched", "dq(self.recent_commands, b'global', c0) == old(dq(self.recent_commands, b'global', c0))"),
        ("not-the-global-scope", "ip != 'global'"),
        ("never-schedules-global", "all_range(0, len(to_del), lambda i: to_del[i] != 'global')"),
    ]),
    "to_del": LoopSpec("deletions", index="_d", invariants=[
        ("kept-or-cleared", "dq(self.recent_commands, s0, c0) == old(dq(self.recent_commands, s0, c0)) or len(dq(self.recent_commands, s0, c0)) == 0"),
        ("global-untouched", "dq(self.recent_commands, b'global', c0) == old(dq(self.recent_commands, b'global', c0))"),
        ("never-deletes-global", "all_range(0, len(to_del), lambda i: to_del[i] != 'global')"),
    ]),
}
cleanup.local_types = {"to_del": V.List(V.Str), "cleared": V.List(V.Str)}
