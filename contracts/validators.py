"""
Sidecar contracts for nostr_relay/validators.py and nostr_relay/dynamic_lists.py  (property C16; is_signed also C03).
Each validator gets an *exactness* contract taken from the property: it raises StorageError if and only if its
documented bound is violated.
"""
import z3
from pyvc import vals as V
from pyvc.vals import Val, Ref, Func, Conc, NONE
from pyvc.sx import R, Exc, LoopSpec, fresh_name
from .common import REG, Contract, Unit, SpecFunc, LOGGER, EVENT, clock_read

P = "nostr_relay/validators.py"

REG.classes["Config"] = {
    "max_event_size": V.Int, "oldest_event": V.Int, "valid_kinds": V.List(V.Int),
    "pubkey_whitelist": V.List(V.Str), "pubkey_blacklist": V.List(V.Str), "require_pow": V.Int,
    "hellthread_limit": V.Int, "service_pubkey": V.Str,
}
CFG = V.ObjT("Config")


def clock0(sx, st, params):
    st.ghost["clock"] = sx.fresh(V.Real, "clock0", st)


def validator(name, bound, extra_requires=(), canary=None, setup=clock0, loops=None):
    """raises StorageError <=> bound   (both directions are obligations)"""
    return REG.unit(Unit(
        P, name,
        Contract(name, {"event": EVENT, "config": CFG},
                 requires=list(extra_requires),
                 ensures=[("accepted-only-within-bound", "not (%s)" % bound)],
                 raises={"StorageError": bound}),
        props=["C16"], setup=setup, loops=loops,
        canaries=[("never-accepts", "False")] + ([canary] if canary else []),
    ))


validator("is_not_too_large", "len(event.content) > config.max_event_size")
validator("is_certain_kind", "event.kind not in config.valid_kinds")
validator("is_author_whitelisted", "event.pubkey not in config.pubkey_whitelist")
validator("is_author_blacklisted", "event.pubkey in config.pubkey_blacklist")
validator("is_service_event", "event.kind == 31494 and event.pubkey != config.service_pubkey")
validator("is_not_hellthread",
          "bool(config.hellthread_limit) and event.kind in (1, 7) and len([t for t in event.tags if t[0] == 'p']) > config.hellthread_limit",
          extra_requires=[("tags-nonempty-items", "all_range(0, len(event.tags), lambda i: len(event.tags[i]) >= 1)")])

# is_recent reads the clock twice: too old w.r.t. the first read, or too far in the future w.r.t. the second
REG.unit(Unit(
    P, "is_recent",
    Contract("is_recent", {"event": EVENT, "config": CFG},
             ensures=[("accepted-only-within-window",
                       "not (ghost('clock1') - event.created_at > config.oldest_event) and not (ghost('clock') - event.created_at < -3600)")],
             raises={"StorageError": "(ghost('clock1') - event.created_at > config.oldest_event) or (ghost('clock') - event.created_at < -3600)"}),
    props=["C16"], setup=clock0, canaries=[("never-accepts", "False")],
))

# proof of work: leading zero bits of the 32-byte id
REG.spec_funcs["lz_bits"] = SpecFunc(REG, "lz_bits", [("event", EVENT)], V.Int, """
def lz_bits(event):
    return 256 - int.from_bytes(bytes.fromhex(event.id), "big").bit_length()
""")
REG.unit(Unit(
    P, "is_pow",
    Contract("is_pow", {"event": EVENT, "config": CFG},
             ensures=[("accepted-only-with-enough-work", "not (lz_bits(event) < config.require_pow)")],
             raises={"StorageError": "lz_bits(event) < config.require_pow", "ValueError": "not fromhex_ok(event.id)"}),
    props=["C16"], setup=clock0, canaries=[("never-accepts", "False")],
))


@REG.model("fromhex_ok")
def _fromhex_ok(sx, args, kwargs, st, node):
    from .common import FROMHEX_OK
    return [R(st, Val(V.Bool, FROMHEX_OK(args[0].term)))]


# is_signed: C03's anchor.  `authentic` is the property's notion; Event.verify()'s own contract (from aionostr's
# source) is weaker: it recomputes the hash and checks signatures over it but never compares it with event.id.
REG.unit(Unit(
    P, "is_signed",
    Contract("is_signed", {"event": EVENT, "config": CFG},
             ensures=[("accepted-only-if-verify", "event_verify(event)")],
             raises={"StorageError": "not event_verify(event)"}),
    props=["C16", "C03"], setup=clock0, canaries=[("never-accepts", "False")],
))


@REG.model("event_verify")
def _event_verify(sx, args, kwargs, st, node):
    from .common import VERIFY
    return [R(st, Val(V.Bool, VERIFY(args[0].term)))]


# =============================================================================================
# get_validator: the pipeline closure.  Every configured validator runs, in order, on the same event;
# any exception of any validator propagates (fail-closed).
# =============================================================================================
VALIDATOR = V.Opaque("ValidatorFn")
VLIST = V.List(VALIDATOR)


@REG.hook("call", repr(VALIDATOR))
def _call_validator(sx, f, args, kwargs, st, node):
    """calling a configured validator function (ASSUMED: arbitrary code): appended to the ghost call log with
    its arguments; may return normally or raise any Exception"""
    log = st.ghost["called"]
    t = log.ty
    st.ghost["called"] = Val(t, t.mk(z3.Store(t.arr(log.term), t.n(log.term), f.term), t.n(log.term) + 1))
    ok_args = z3.And(sx.eq(args[0], st.ghost["the_event"], st), z3.BoolVal(len(args) == 2))
    st.ghost["called_args_ok"] = Val(V.Bool, z3.And(st.ghost["called_args_ok"].term, ok_args))
    s2 = st.fork()
    return [R(st, NONE), R(s2, None, Exc("Exception", exact=False))]


class AsyncioModule:
    def __pyvc_getattr__(self, sx, attr, st, node):
        if attr == "get_running_loop":
            return [R(st, Func(lambda sx2, a, k, s, n: [R(s, Conc(LoopObj()))], "asyncio.get_running_loop"))]
        raise Exception("asyncio." + attr)


class LoopObj:
    def __pyvc_getattr__(self, sx, attr, st, node):
        if attr == "run_in_executor":
            # loop.run_in_executor(None, f, *args) (ASSUMED): f(*args) runs on a worker thread; awaiting the
            # future returns its result or re-raises its exception
            return [R(st, Func(lambda sx2, a, k, s, n: sx2.call(a[1], a[2:], {}, s, n), "run_in_executor"))]
        raise Exception("loop." + attr)


REG.globals["asyncio"] = Conc(AsyncioModule())


def setup_pipeline(sx, st, params):
    clock0(sx, st, params)
    vl = sx.fresh(VLIST, "validators", st)
    st.env["validators"] = vl
    st.ghost["called"] = Val(VLIST, VLIST.empty())
    st.ghost["called_args_ok"] = V.mk_bool(True)
    st.ghost["the_event"] = params["event"]



REG.unit(Unit(
    P, "get_validator.validate",
    Contract("get_validator.validate", {"event": EVENT, "config": CFG},
             ensures=[
                 ("all-validators-ran-in-order", "ghost('called') == validators"),
                 ("on-this-event", "ghost('called_args_ok')"),
             ],
             raises={"Exception+": True}),
    loops={"validators": LoopSpec("validators", index="_k", invariants=[
        ("prefix-called", "len(ghost('called')) == _k and all_range(0, _k, lambda i: ghost('called')[i] == validators[i])"),
        ("args", "ghost('called_args_ok')"),
    ])},
    props=["C16", "C03"], setup=setup_pipeline,
    canaries=[("skips-one", "len(ghost('called')) < len(validators)")],
)).ghost_const = ("the_event", "clock")
