"""
Sidecar contracts for nostr_relay/validators.py and nostr_relay/dynamic_lists.py  (property C16; is_signed also C03).
Each validator gets an *exactness* contract taken from the property: it raises StorageError if and only if its
documented bound is violated.
"""
import z3
from pyvc import vals as V
from pyvc.vals import Val, Ref, Func, Conc, NONE
from pyvc.sx import R, Exc, LoopSpec, fresh_name
from .common import REG, Contract, Unit, SpecFunc, LOGGER, EVENT, clock_read

P = "nostr_relay/validators.py"

REG.classes["Config"] = {
    "max_event_size": V.Int, "oldest_event": V.Int, "valid_kinds": V.List(V.Int),
    "pubkey_whitelist": V.List(V.Str), "pubkey_blacklist": V.List(V.Str), "require_pow": V.Int,
    "hellthread_limit": V.Int, "service_pubkey": V.Str,
}
CFG = V.ObjT("Config")


def clock0(sx, st, params):
    st.ghost["clock"] = sx.fresh(V.Real, "clock0", st)


def validator(name, bound, extra_requires=(), canary=None, setup=clock0, loops=None):
    """raises StorageError <=> bound   (both directions are obligations)"""
    return REG.unit(Unit(
        P, name,
        Contract(name, {"event": EVENT, "config": CFG},
                 requires=list(extra_requires),
                 ensures=[("accepted-only-within-bound", "not (%s)" % bound)],
                 raises={"StorageError": bound}),
        props=["C16"], setup=setup, loops=loops,
        canaries=[("never-accepts", "False")] + ([canary] if canary else []),
    ))


validator("is_not_too_large", "len(event.content) > config.max_event_size")
validator("is_certain_kind", "event.kind not in config.valid_kinds")
validator("is_author_whitelisted", "event.pubkey not in config.pubkey_whitelist")
validator("is_author_blacklisted", "event.pubkey in config.pubkey_blacklist")
validator("is_service_event", "event.kind == 31494 and event.pubkey != config.service_pubkey")
validator("is_not_hellthread",
          "bool(config.hellthread_limit) and event.kind in (1, 7) and len([t for t in event.tags if t[0] == 'p']) > config.hellthread_limit",
          extra_requires=[("tags-nonempty-items", "all_range(0, len(event.tags), lambda i: len(event.tags[i]) >= 1)")])

# is_recent reads the clock twice: too old w.r.t. the first read, or too far in the future w.r.t. the second
REG.unit(Unit(
    P, "is_recent",
    Contract("is_recent", {"event": EVENT, "config": CFG},
             ensures=[("accepted-only-within-window",
                       "not (ghost('clock1') - event.created_at > config.oldest_event) and not (ghost('clock') - event.created_at < -3600)")],
             raises={"StorageError": "(ghost('clock1') - event.created_at > config.oldest_event) or (ghost('clock') - event.created_at < -3600)"}),
    props=["C16"], setup=clock0, canaries=[("never-accepts", "False")],
))

# proof of work: leading zero bits of the 32-byte id
REG.spec_funcs["lz_bits"] = SpecFunc(REG, "lz_bits", [("event", EVENT)], V.Int, """
def lz_bits(event):
    return 256 - int.from_bytes(bytes.fromhex(event.id), "big").bit_length()
""")
REG.unit(Unit(
    P, "is_pow",
    Contract("is_pow", {"event": EVENT, "config": CFG},
             ensures=[("accepted-only-with-enough-work", "not (lz_bits(event) < config.require_pow)")],
             raises={"StorageError": "lz_bits(event) < config.require_pow", "ValueError": "not fromhex_ok(event.id)"}),
    props=["C16"], setup=clock0, canaries=[("never-accepts", "False")],
))


@REG.model("fromhex_ok")
def _fromhex_ok(sx, args, kwargs, st, node):
    from .common import FROMHEX_OK
    return [R(st, Val(V.Bool, FROMHEX_OK(args[0].term)))]


@REG.model("event_verify")
def _event_verify(sx, args, kwargs, st, node):
    from .common import VERIFY
    return [R(st, Val(V.Bool, VERIFY(args[0].term)))]


# =============================================================================================
# get_validator: the pipeline closure.  Every configured validator runs, in order, on the same event;
# any exception of any validator propagates (fail-closed).
# =============================================================================================
VALIDATOR = V.Opaque("ValidatorFn")
VLIST = V.List(VALIDATOR)


@REG.hook("call", repr(VALIDATOR))
def _call_validator(sx, f, args, kwargs, st, node):
    """calling a configured validator function (ASSUMED: arbitrary code): appended to the ghost call log with
    its arguments; may return normally or raise any Exception"""
    log = st.ghost["called"]
    t = log.ty
    st.ghost["called"] = Val(t, t.mk(z3.Store(t.arr(log.term), t.n(log.term), f.term), t.n(log.term) + 1))
    ok_args = z3.And(sx.eq(args[0], st.ghost["the_event"], st), z3.BoolVal(len(args) == 2))
    st.ghost["called_args_ok"] = Val(V.Bool, z3.And(st.ghost["called_args_ok"].term, ok_args))
    s2 = st.fork()
    return [R(st, NONE), R(s2, None, Exc("Exception", exact=False))]


class LoopObj:
    def __pyvc_getattr__(self, sx, attr, st, node):
        if attr == "run_in_executor":
            # loop.run_in_executor(None, f, *args) (ASSUMED): f(*args) runs on a worker thread; awaiting the
            # future returns its result or re-raises its exception
            return [R(st, Func(lambda sx2, a, k, s, n: sx2.call(a[1], a[2:], {}, s, n), "run_in_executor"))]
        raise Exception("loop." + attr)


from .common import asyncio_attr  # noqa: E402


@asyncio_attr("get_running_loop")
def _aio_loop(sx, st, node):
    return [R(st, Func(lambda sx2, a, k, s, n: [R(s, Conc(LoopObj()))], "asyncio.get_running_loop"))]


def setup_pipeline(sx, st, params):
    clock0(sx, st, params)
    vl = sx.fresh(VLIST, "validators", st)
    st.env["validators"] = vl
    st.ghost["called"] = Val(VLIST, VLIST.empty())
    st.ghost["called_args_ok"] = V.mk_bool(True)
    st.ghost["the_event"] = params["event"]



REG.unit(Unit(
    P, "get_validator.validate",
    Contract("get_validator.validate", {"event": EVENT, "config": CFG},
             ensures=[
                 ("all-validators-ran-in-order", "ghost('called') == validators"),
                 ("on-this-event", "ghost('called_args_ok')"),
             ],
             raises={"Exception+": True}),
    loops={"validators": LoopSpec("validators", index="_k", invariants=[
        ("prefix-called", "len(ghost('called')) == _k and all_range(0, _k, lambda i: ghost('called')[i] == validators[i])"),
        ("args", "ghost('called_args_ok')"),
    ])},
    props=["C16", "C03"], setup=setup_pipeline,
    canaries=[("skips-one", "len(ghost('called')) < len(validators)")],
)).ghost_const = ("the_event", "clock")


# =============================================================================================
# is_canonical / is_signed after fix 67b8802: the property's notion of an authentic event
# =============================================================================================
from pyvc import builtins as B  # noqa: E402

# the event as built by Event(**payload): every field may hold an arbitrary JSON value
RAW = V.Rec("RawEvent", {"id": V.Json, "pubkey": V.Json, "created_at": V.Json, "kind": V.Json, "content": V.Json, "tags": V.Json, "sig": V.Json})
COMPUTE_ID = REG.ufun("compute_id", [V.Json.sort()] * 5, z3.StringSort())
RAW_VERIFY = REG.ufun("raw_verify", [RAW.sort()], z3.BoolSort())


class EventClass:
    """aionostr.event.Event (class attribute access)"""
    __pyvc_classname__ = "Event"

    def __pyvc_getattr__(self, sx, attr, st, node):
        if attr == "compute_id":
            def cid(sx2, a, k, s, n):
                """Event.compute_id (ASSUMED): lowercase sha256 hex digest of the canonical serialization of its arguments"""
                args = [sx2.coerce(x, V.Json, s) if not isinstance(x.ty, V._Json) else x for x in a]
                r = COMPUTE_ID(*[x.term for x in args])
                s.assume(z3.Length(r) == 64)
                s.assume(z3.InRe(r, z3.Star(z3.Union(z3.Range("0", "9"), z3.Range("a", "f")))))
                return [R(s, Val(V.Str, r))]
            return [R(st, Func(cid, "Event.compute_id"))]
        raise Unsupported("Event.%s" % attr, node)


from pyvc.sx import Unsupported  # noqa: E402
REG.globals["Event"] = Conc(EventClass())


def _raw_verify(sx, ev, st, node):
    return [R(st, Func(lambda sx2, a, k, s, n: [R(s, Val(V.Bool, RAW_VERIFY(ev.term)))], "Event.verify"))]


REG.rec_props[("RawEvent", "verify")] = _raw_verify


@REG.model("jkind")
def _jkind(sx, args, kwargs, st, node):
    return [R(st, Val(V.Int, B.J()["kind"](args[0].term)))]


@REG.model("jstr")
def _jstr(sx, args, kwargs, st, node):
    return [R(st, Val(V.Str, B.J()["str"](args[0].term)))]


@REG.model("jitem")
def _jitem(sx, args, kwargs, st, node):
    return [R(st, Val(V.Json, B.J()["item"](args[0].term, args[1].term)))]


@REG.model("jget")
def _jget(sx, args, kwargs, st, node):
    k = args[1]
    k = sx.lift(k) if isinstance(k, Conc) else k
    return [R(st, Val(V.Json, B.J()["get"](args[0].term, k.term)))]


@REG.model("jintval")
def _jintval(sx, args, kwargs, st, node):
    return [R(st, Val(V.Int, B.J()["int"](args[0].term)))]


@REG.model("jlen")
def _jlen(sx, args, kwargs, st, node):
    return [R(st, Val(V.Int, B.J()["len"](args[0].term)))]


@REG.model("raw_verify")
def _raw_verify_spec(sx, args, kwargs, st, node):
    return [R(st, Val(V.Bool, RAW_VERIFY(args[0].term)))]


@REG.model("compute_id")
def _compute_id_spec(sx, args, kwargs, st, node):
    return [R(st, Val(V.Str, COMPUTE_ID(*[a.term for a in args])))]


JSTR, JINT, JLIST = 4, 2, 5
LOWHEX = "(jkind(%s) == 4 and len(jstr(%s)) == %d and all(c in '0123456789abcdef' for c in jstr(%s)))"
TAG_OK = ("jkind(jitem(event.tags, i)) == 5 and jlen(jitem(event.tags, i)) > 0 and jkind(jitem(jitem(event.tags, i), 0)) == 4 and "
          "all_range(0, jlen(jitem(event.tags, i)), lambda k: jkind(jitem(jitem(event.tags, i), k)) == 4 or jkind(jitem(jitem(event.tags, i), k)) == 2)")
# (the ranges: what both backends can index -- a 4-byte unsigned timestamp, a NIP-01 kind; fix 3e4123b)
CANON = ("jkind(event.created_at) == 2 and jkind(event.kind) == 2 and jkind(event.content) == 4 and "
         "0 <= jintval(event.created_at) and jintval(event.created_at) < 4294967296 and 0 <= jintval(event.kind) and jintval(event.kind) <= 65535 and "
         + LOWHEX % ("event.pubkey", "event.pubkey", 64, "event.pubkey") + " and "
         + LOWHEX % ("event.sig", "event.sig", 128, "event.sig") + " and "
         "jkind(event.tags) == 5 and all_range(0, jlen(event.tags), lambda i: %s) and "
         "jkind(event.id) == 4 and jstr(event.id) == compute_id(event.pubkey, event.created_at, event.kind, event.tags, event.content)" % TAG_OK)

is_canonical = REG.unit(Unit(
    P, "is_canonical",
    Contract("is_canonical", {"event": RAW},
             # Event.__init__ stores int(kind): the kind field is always an int
             requires=[("kind-is-int-by-construction", "jkind(event.kind) == 2")],
             ensures=[("canonical-iff-nip01-types-and-own-id", "result == (%s)" % CANON)],
             returns=V.Bool),
    loops={
        "event.tags": LoopSpec("tags", index="_i", invariants=[("tags-so-far-ok", "all_range(0, _i, lambda i: %s)" % TAG_OK)]),
        "tag": LoopSpec("items", index="_k", invariants=[
            ("items-so-far-ok", "all_range(0, _k, lambda k: jkind(jitem(tag, k)) == 4 or jkind(jitem(tag, k)) == 2)")]),
    },
    props=["C03", "C04", "C16"], canaries=[("accepts-everything", "result")],
))
is_canonical.ghost_havoc = lambda sx, body, st: None


# is_signed (C03's anchor): returns normally only for an authentic event -- canonical fields, id = hash of its own fields,
# and Event.verify() (signature over the recomputed hash + every delegation tag's signature; crypto uninterpreted)
AUTHENTIC = "(%s) and raw_verify(event)" % CANON
REG.unit(Unit(
    P, "is_signed",
    Contract("is_signed", {"event": RAW, "config": CFG},
             requires=[("kind-is-int-by-construction", "jkind(event.kind) == 2")],
             ensures=[("accepted-only-if-authentic", AUTHENTIC)],
             raises={"StorageError": "not (%s)" % AUTHENTIC}),
    props=["C16", "C03"], setup=clock0, canaries=[("never-accepts", "False")],
))
