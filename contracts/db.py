"""
Sidecar contracts for nostr_relay/storage/db.py (SQL backend): add_event, pre_save, post_save, process_tags.
Store view and SQL model: contracts/sqlmodel.py.

C03/C14/C16: validate -> authorize -> write (typestate);  C06: returned flag == row newly stored, failures leave no trace,
broadcast iff changed;  C07: one transaction, rollback on every failing statement, broadcast only after commit;
C08: kind-5 removes only own referenced rows;  C09: replaceable supersession frame.
"""
import z3
from pyvc import vals as V
from pyvc.vals import Val, Ref, Func, Conc, NONE
from pyvc.sx import R, Out, Exc, LoopSpec, fresh_name, Unsupported
from .common import REG, Contract, Unit, SpecFunc, LOGGER, EVENT, TAGS, FROMHEX, assume_doc
from .auth import TOKEN
from . import sqlmodel as SQL
from .sqlmodel import ROW, ROWS, ghost_sql
from .base import StatCollector

P = "nostr_relay/storage/db.py"

REG.classes["DBStorage"] = {
    "log": lambda sx, st, name: LOGGER,
    "db": lambda sx, st, name: Conc(SQL.Engine()),
    "add_slot": lambda sx, st, name: Conc(SQL.SemaphoreCM()),
    "EventTable": lambda sx, st, name: Conc(SQL.Table("events")),
    "event_insert_query": lambda sx, st, name: Conc(SQL.Stmt("insert_event")),
    "tag_insert_query": lambda sx, st, name: Conc(SQL.Stmt("insert_tags")),
    "stat_collector": lambda sx, st, name: Conc(StatCollector()),
    "authenticator": V.ObjT("DBAuthenticator"),
    "__frozen__": ("authenticator",),
}
REG.classes["DBAuthenticator"] = {}


@REG.method("DBAuthenticator", "can_do", frame=[])
def _can_do(sx, args, kwargs, st, node):
    """authenticator.can_do(token, 'save', event) (own contract, C14)"""
    r = sx.fresh(V.Bool, "can_save", st)
    act = z3.simplify(args[2].term)
    on_event = len(args) > 3 and sx.eq(args[3], st.ghost["constructed_event"], st)
    if z3.is_string_value(act) and act.as_string() == "save":
        st.ghost["save_authorized"] = Val(V.Bool, z3.And(r.term, on_event if not isinstance(on_event, bool) else z3.BoolVal(on_event)))
    return [R(st, r)]


@REG.method("DBStorage", "validate_event", frame=[])
def _validate_event(sx, args, kwargs, st, node):
    """self.validate_event(event, Config) = the pipeline closure of get_validator (own contract, C16/C03): returns only if
    every configured validator accepted this event; any validator exception propagates"""
    ok = sx.eq(args[1], st.ghost["constructed_event"], st)
    s2 = st.fork()
    s3 = st.fork()
    st.ghost["validated"] = Val(V.Bool, ok)
    # Event.verify() reads tag[0] of every tag: it only returns for events whose tags all have at least one item
    ev = args[1]
    i = z3.Int(fresh_name("vt"))
    tg = EVENT.get(ev.term, "tags")
    st.assume(z3.ForAll([i], z3.Implies(z3.And(i >= 0, i < TAGS.n(tg)), TAGS.elem.n(TAGS.at(tg, i)) >= 1)))
    return [R(st, NONE), R(s2, None, Exc("StorageError", sx.fresh(V.Str, "reason", s2))),
            R(s3, None, Exc("Exception", exact=False, excluding=("StorageError", "AuthenticationError", "EngineError")))]


def _broadcast(kind):
    def f(sx, args, kwargs, st, node):
        """notify_all_connected / notify_other_processes (own contracts, C05/C20).  Typestate: only a validated,
        authorized, newly stored event is broadcast, and only after its transaction committed"""
        ev_ok = sx.eq(args[1], st.ghost["constructed_event"], st)
        sx.oblige(st, "%s/broadcast:%s:after-commit" % (sx.cur_func, kind), z3.Not(st.ghost["txn_open"].term), "typestate", node, props=["C07"])
        sx.oblige(st, "%s/broadcast:%s:only-validated" % (sx.cur_func, kind), z3.And(st.ghost["validated"].term, ev_ok), "typestate", node, props=["C03", "C16"])
        sx.oblige(st, "%s/broadcast:%s:only-authorized" % (sx.cur_func, kind), st.ghost["save_authorized"].term, "typestate", node, props=["C14"])
        sx.oblige(st, "%s/broadcast:%s:only-newly-stored" % (sx.cur_func, kind), st.ghost["inserted"].term, "typestate", node, props=["C06", "C05"])
        g = "n_broadcast_" + kind
        st.ghost[g] = Val(V.Int, st.ghost[g].term + 1)
        return [R(st, NONE)]
    return f


REG.methods[("DBStorage", "notify_all_connected")] = _broadcast("local")
REG.methods[("DBStorage", "notify_other_processes")] = _broadcast("peers")
REG.frames["notify_all_connected"] = []
REG.frames["notify_other_processes"] = []


def ghost_db(sx, st):
    ghost_sql(sx, st)
    st.ghost["txn_open"] = sx.fresh(V.Bool, "txn_open0", st)
    st.ghost["n_broadcast_local"] = V.mk_int(0)
    st.ghost["n_broadcast_peers"] = V.mk_int(0)
    st.ghost["constructed_event"] = sx.fresh(EVENT, "no_event", st)
    st.ghost["tags_indexed_for"] = sx.fresh(EVENT, "nothing_indexed", st)
    st.ghost["process_tags_calls"] = V.mk_int(0)


# ---- spec vocabulary --------------------------------------------------------------------------------
REG.spec_funcs["first_d_is"] = SpecFunc(REG, "first_d_is", [("tags", TAGS), ("v", V.Str)], V.Bool, """
def first_d_is(tags, v):
    # v is the NIP-33 d-value of the tag list: second item of the FIRST 'd' tag, '' if that tag is bare or there is none
    return (any_range(0, len(tags), lambda i: tags[i][0] == 'd' and all_range(0, i, lambda j: tags[j][0] != 'd')
                      and v == (tags[i][1] if len(tags[i]) > 1 else ''))
            or (all_range(0, len(tags), lambda i: tags[i][0] != 'd') and v == ''))
""")

DVALUE = REG.ufun("dvalue", [TAGS.sort()], z3.StringSort())


@REG.model("dvalue")
def _dvalue(sx, args, kwargs, st, node):
    """the NIP-33 d-value of a tag list as a function: dvalue(tags) is THE v with first_d_is(tags, v)
    (first_d_is is a total functional relation; the instance of that fact is assumed where the function is used)"""
    t = sx.deref(args[0], st)
    v = Val(V.Str, DVALUE(t.term))
    f = REG.spec_funcs["first_d_is"].as_func(sx)
    r = f.fn(sx, [t, v], {}, st, node)[0].val
    st.assume(r.term)
    return [R(st, v)]


R0 = "r0"
GONE = "(in_rows(old(ghost('rows')), r0) and not in_rows(ghost('rows'), r0))"
CE = "ghost('constructed_event')"

# ---- pre_save (C09) ---------------------------------------------------------------------------------
pre_save_contract = Contract(
    "DBStorage.pre_save", {"self": V.ObjT("DBStorage"), "conn": lambda sx, st, name: Conc(SQL.Connection()), "event": EVENT, "r0": ROW},
    requires=[("inside-transaction", "ghost('txn_open')"),
              ("tags-nonempty-items", "all_range(0, len(event.tags), lambda i: len(event.tags[i]) >= 1)"),
              ("stored-tags-nonempty-items", "forall(lambda r: implies(in_rows(ghost('rows'), r), all_range(0, len(r.tags), lambda i: len(r.tags[i]) >= 1)), r=Rec_Row)")],
    ensures=[
        ("always-saves", "result == True"),
        # frame: only an OLDER version of the SAME address (author, kind, d-value) may be superseded; nothing is added
        ("supersedes-only-older-same-address",
         "implies(%s, (event.is_replaceable or event.is_paramaterized_replaceable) and r0.pubkey == bytes.fromhex(event.pubkey) and r0.kind == event.kind"
         " and r0.created_at < event.created_at and implies(event.is_paramaterized_replaceable, dvalue(r0.tags) == dvalue(event.tags)))" % GONE),
        # completeness: every older stored version of the address is superseded, however many there are
        ("supersedes-every-older-version",
         "implies(in_rows(old(ghost('rows')), r0) and (event.is_replaceable or event.is_paramaterized_replaceable) and r0.pubkey == bytes.fromhex(event.pubkey)"
         " and r0.kind == event.kind and r0.created_at < event.created_at and implies(event.is_paramaterized_replaceable, dvalue(r0.tags) == dvalue(event.tags)),"
         " not in_rows(ghost('rows'), r0))"),
        ("adds-nothing", "implies(in_rows(ghost('rows'), r0), in_rows(old(ghost('rows')), r0))"),
        ("regular-events-touch-nothing", "implies(not (event.is_replaceable or event.is_paramaterized_replaceable), in_rows(ghost('rows'), r0) == in_rows(old(ghost('rows')), r0))"),
        ("stays-in-transaction", "ghost('txn_open')"),
        # C07: no statement of this event's transaction failed and was swallowed (a failure must escape and roll everything back)
        ("no-failed-statement-swallowed", "not ghost('engine_failed')"),
    ],
    raises={"EngineError+": True, "ValueError": "not fromhex_ok(event.pubkey)", "IndexError": True},
    modifies=["ghost.rows", "ghost.n_statements", "ghost.n_deletes", "ghost.last_rowcount", "ghost.selected_row"],
    returns=V.Bool,
)
pre_save_contract.ghost_params = ("r0",)
pre_save = REG.unit(Unit(
    P, "DBStorage.pre_save", pre_save_contract,
    loops={
        "event.tags": LoopSpec("dtag", index="_t", invariants=[
            ("d-tag-not-seen-yet", "d_tag == '' and all_range(0, _t, lambda i: event.tags[i][0] != 'd')"),
        ]),
        "result": LoopSpec("candidates", index="_c", invariants=[
            ("nothing-chosen-yet", "delete_id is None"),
        ]),
    },
    props=["C09", "C07", "C06", "C03", "C04"], ghost_init=ghost_db,
    canaries=[("never-deletes", "ghost('n_deletes') == 0")],
))
pre_save.ghost_havoc = lambda sx, body, st: None
pre_save.local_types = {"delete_id": V.Opt(V.Bytes)}
pre_save.post_locals = {"d_tag": V.Str}
pre_save.obligation_props = [("sql:statement-inside-open-transaction", ["C07"]), ("post:stays-in-transaction", ["C07"]), ("post:no-failed-statement", ["C07"]),
                             # C03/C04: the validated event is stored and served as it was accepted -- nothing on the admission path edits it
                             ("frame:", ["C03", "C04", "C09"]),
                             # C06 ("resubmitting a stored event changes nothing") rests on: only STRICTLY older rows are superseded
                             ("post:supersedes-only-older-same-address", ["C09", "C06"]), ("post:regular-events-touch-nothing", ["C09", "C06"]),
                             ("post:", ["C09"]), ("inv:", ["C09"]), ("exc:", ["C09", "C07"]), ("call:", ["C07", "C09"])]


# ---- delete_event: its own transaction -----------------------------------------------------------------
delete_event_contract = Contract(
    "DBStorage.delete_event", {"self": V.ObjT("DBStorage"), "event_id": V.Str, "r0": ROW},
    # opens (and commits) a transaction of its own: must not be used inside another one (C07)
    requires=[("not-inside-a-transaction", "not ghost('txn_open')")],
    ensures=[("removes-exactly-that-id", "in_rows(ghost('rows'), r0) == (in_rows(old(ghost('rows')), r0) and r0.id != bytes.fromhex(event_id))"),
             ("transaction-closed", "not ghost('txn_open')")],
    raises={"EngineError+": True, "ValueError": "not fromhex_ok(event_id)"},
    exc_ensures={"EngineError+": [("failure-leaves-store-unchanged", "in_rows(ghost('rows'), r0) == in_rows(old(ghost('rows')), r0)")]},
    modifies=["ghost.rows", "ghost.n_statements", "ghost.n_deletes", "ghost.last_rowcount", "ghost.n_txn", "ghost.n_commits", "ghost.n_rollbacks", "ghost.rows_at_begin"],
)
delete_event_contract.ghost_params = ("r0",)
REG.unit(Unit(P, "DBStorage.delete_event", delete_event_contract, props=["C07", "C08"], ghost_init=ghost_db,
              canaries=[("never-deletes", "ghost('n_deletes') == 0")]))


# ---- process_tags (C08: NIP-09 deletion by the author only) ---------------------------------------------
class TagRows:
    """the parameter list of the bulk INSERT into `tags` (one dict per collected tag)"""


def _comprehension_over(sx, node, kind, payload, st, ckind):
    # [ {...} for tag in <set of (name, value)> ]: parameters of the tags INSERT; not interpreted further
    # (scoped to process_tags: the registry is shared by all sidecars)
    if sx.unit is None or sx.unit.qual != "DBStorage.process_tags":
        return None
    return [R(st, Conc(TagRows()))]


REG.comprehension_over = _comprehension_over


# an "e" tag references an event if it has a value and that value is an id in hex (fix 8e49fcd: other "e" tags are skipped)
REFERENCED = "any_range(0, %s, lambda i: event.tags[i][0] == 'e' and len(event.tags[i]) > 1 and fromhex_ok(event.tags[i][1]) and r0.id == bytes.fromhex(event.tags[i][1]))"
OWN = "r0.pubkey == bytes.fromhex(event.pubkey)"
process_tags_contract = Contract(
    "DBStorage.process_tags", {"self": V.ObjT("DBStorage"), "conn": lambda sx, st, name: Conc(SQL.Connection()), "event": EVENT, "r0": ROW},
    requires=[("inside-transaction", "ghost('txn_open')"),
              ("tags-nonempty-items", "all_range(0, len(event.tags), lambda i: len(event.tags[i]) >= 1)")],
    ensures=[
        # only the author's own, referenced events are removed -- by a kind-5 event only
        ("deletes-only-own-referenced-events",
         "implies(%s, event.kind == 5 and %s and %s)" % (GONE, OWN, REFERENCED % "len(event.tags)")),
        # and all of them are
        ("deletes-every-own-referenced-event",
         "implies(event.kind == 5 and in_rows(old(ghost('rows')), r0) and %s and %s, not in_rows(ghost('rows'), r0))" % (OWN, REFERENCED % "len(event.tags)")),
        ("adds-no-event-row", "implies(in_rows(ghost('rows'), r0), in_rows(old(ghost('rows')), r0))"),
        ("stays-in-transaction", "ghost('txn_open')"),
        # C07: no statement of this event's transaction failed and was swallowed (a failure must escape and roll everything back)
        ("no-failed-statement-swallowed", "not ghost('engine_failed')"),
    ],
    # C06 (fixes 8e49fcd): a canonical event (hex pubkey, non-empty tags) is never refused here except by the engine --
    # no IndexError for a tag without a value, no ValueError for an "e" tag that is not an id
    raises={"EngineError+": True, "ValueError": "not fromhex_ok(event.pubkey)"},
    modifies=["ghost.rows", "ghost.n_statements", "ghost.n_deletes", "ghost.n_tag_inserts", "ghost.last_rowcount"],
)
process_tags_contract.ghost_params = ("r0",)
process_tags = REG.unit(Unit(
    P, "DBStorage.process_tags", process_tags_contract,
    loops={
        # the second loop over event.tags (inside `if event.kind == EventKind.DELETE`)
        2: LoopSpec("deletions", index="_k", invariants=[
            ("removed-so-far", "in_rows(ghost('rows'), r0) == (in_rows(old(ghost('rows')), r0) and not (%s and %s))" % (OWN, REFERENCED % "_k")),
            ("in-txn", "ghost('txn_open')"),
            ("no-failure-swallowed", "not ghost('engine_failed')"),
        ]),
        1: LoopSpec("collect", index="_t", invariants=[("rows-untouched", "in_rows(ghost('rows'), r0) == in_rows(old(ghost('rows')), r0) and ghost('txn_open') and ghost('n_deletes') == 0"),
                                                       ("no-failure-swallowed", "not ghost('engine_failed')")]),
    },
    props=["C08", "C07", "C03", "C04", "C06"], ghost_init=ghost_db,
    canaries=[("never-deletes", "ghost('n_deletes') == 0")],
))
process_tags.ghost_havoc = lambda sx, body, st: [st.ghost.__setitem__(g, sx.fresh(st.ghost[g].ty, "g_" + g, st)) for g in ("rows", "n_statements", "n_deletes", "last_rowcount", "engine_failed")]
process_tags.local_types = {"tags": V.Set(V.Tuple(V.Str, V.Str))}
process_tags.obligation_props = [("sql:statement-inside-open-transaction", ["C07"]), ("post:stays-in-transaction", ["C07"]), ("inv:in-txn", ["C07"]),
                                 ("frame:", ["C03", "C04", "C08"]),
                                 ("post:no-failed-statement", ["C07"]), ("inv:no-failure-swallowed", ["C07"]),
                                 ("post:", ["C08"]), ("inv:", ["C08"]), ("exc:", ["C08", "C07", "C06"])]


@REG.method("DBStorage", "process_tags", frame=None)
def _call_process_tags(sx, args, kwargs, st, node):
    """self.process_tags(conn, event): its own contract above, plus the record WHICH event's tags were handed to the indexer
    (the tags table is what tag queries, NIP-09 deletions and the garbage collector's expiration test read)"""
    st.ghost["process_tags_calls"] = Val(V.Int, st.ghost["process_tags_calls"].term + 1)
    st.ghost["tags_indexed_for"] = sx.deref(args[2], st)
    return REG.call_contract(sx, process_tags_contract, args[0], list(args[1:]), kwargs, st, node)


# ---- post_save (C09 for kinds 0/3 + delegates to process_tags) --------------------------------------------
post_save_contract = Contract(
    "DBStorage.post_save", {"self": V.ObjT("DBStorage"), "event": EVENT, "connection": lambda sx, st, name: Conc(SQL.Connection()), "changed": V.Bool, "r0": ROW},
    requires=[("inside-transaction", "ghost('txn_open')"),
              ("tags-nonempty-items", "all_range(0, len(event.tags), lambda i: len(event.tags[i]) >= 1)")],
    ensures=[
        # an event that was not newly stored has no side effects at all
        ("unchanged-event-has-no-effects", "implies(not changed, in_rows(ghost('rows'), r0) == in_rows(old(ghost('rows')), r0))"),
        # a row disappears only as an older version of the same metadata/contact list, or by the author's deletion request
        ("removes-only-superseded-or-own-deleted",
         "implies(%s, changed and %s and ((event.kind in (0, 3) and r0.kind == event.kind and r0.created_at < event.created_at) or (event.kind == 5 and %s)))"
         % (GONE, OWN, REFERENCED % "len(event.tags)")),
        ("adds-no-event-row", "implies(in_rows(ghost('rows'), r0), in_rows(old(ghost('rows')), r0))"),
        ("stays-in-transaction", "ghost('txn_open')"),
        # C07: no statement of this event's transaction failed and was swallowed (a failure must escape and roll everything back)
        ("no-failed-statement-swallowed", "not ghost('engine_failed')"),
        # C17 / C02 / C08: every newly stored event -- whatever its kind -- has its tags indexed, exactly once (the tags table is the
        # representation the expiration test of the garbage collector, tag queries and NIP-09 deletions rely on)
        ("newly-stored-event-gets-its-tags-indexed",
         "implies(changed, ghost('process_tags_calls') == old(ghost('process_tags_calls')) + 1 and ghost('tags_indexed_for') == event)"),
    ],
    raises={"EngineError+": True, "ValueError": True, "IndexError": True},
    modifies=["ghost.rows", "ghost.n_statements", "ghost.n_deletes", "ghost.n_tag_inserts", "ghost.last_rowcount", "ghost.process_tags_calls", "ghost.tags_indexed_for"],
)
post_save_contract.ghost_params = ("r0",)
post_save = REG.unit(Unit(P, "DBStorage.post_save", post_save_contract, props=["C09", "C08", "C06", "C07", "C17", "C02", "C03", "C04"], ghost_init=ghost_db,
                          canaries=[("always-changed", "changed")]))
post_save.obligation_props = [("sql:statement-inside-open-transaction", ["C07"]), ("post:stays-in-transaction", ["C07"]), ("post:no-failed-statement", ["C07"]),
                              ("post:newly-stored-event-gets-its-tags-indexed", ["C17", "C02", "C08"]), ("frame:", ["C03", "C04"]),
                              ("post:unchanged-event-has-no-effects", ["C06"]), ("call:DBStorage.process_tags/pre:inside", ["C07"]),
                              ("post:", ["C09", "C08"]), ("exc:", ["C07"])]

# ---- add_event ---------------------------------------------------------------------------------------------
EV_ID = "bytes.fromhex(%s.id)" % CE
UNTOUCHED = "in_rows(ghost('rows'), r0) == in_rows(old(ghost('rows')), r0)"
NO_BROADCAST = "ghost('n_broadcast_local') == 0 and ghost('n_broadcast_peers') == 0"
add_event_contract = Contract(
    "DBStorage.add_event", {"self": V.ObjT("DBStorage"), "event_json": V.Json, "auth_token": V.Opt(TOKEN), "r0": ROW},
    requires=[("no-transaction-open", "not ghost('txn_open')"),
              # store invariant (established by this very function, see store-invariant-preserved): stored events were validated
              ("stored-tags-nonempty-items", "forall(lambda r: implies(in_rows(ghost('rows'), r), all_range(0, len(r.tags), lambda i: len(r.tags[i]) >= 1)), r=Rec_Row)")],
    ensures=[
        ("store-invariant-preserved", "implies(in_rows(ghost('rows'), r0), all_range(0, len(r0.tags), lambda i: len(r0.tags[i]) >= 1))"),
        # C06: the flag returned (sent as OK) says whether the event was newly stored ...
        ("flag-iff-newly-stored", "result[1] == ghost('inserted')"),
        ("returns-the-submitted-event", "result[0] == %s" % CE),
        # ... a stored event is retrievable afterwards, a duplicate leaves the store as it was
        ("stored-event-is-in-the-table", "implies(result[1] and r0.id == %s and in_rows(ghost('rows'), r0), r0.pubkey == bytes.fromhex(%s.pubkey) and r0.content == %s.content)" % (EV_ID, CE, CE)),
        ("duplicate-changes-nothing", "implies(not result[1], %s)" % UNTOUCHED),
        # broadcast exactly once, and only for a newly stored event
        ("broadcast-iff-newly-stored", "ghost('n_broadcast_local') == (1 if result[1] else 0) and ghost('n_broadcast_peers') == (1 if result[1] else 0)"),
        # C03/C14/C16: nothing is returned as accepted without validation and authorization
        ("accepted-only-validated-and-authorized", "ghost('validated') and ghost('save_authorized')"),
        ("transaction-closed-and-slot-released", "not ghost('txn_open') and ghost('slots_held') == 0"),
        ("single-transaction", "ghost('n_txn') <= 1"),
    ],
    raises={"StorageError": True, "AuthenticationError": True, "EngineError+": True, "Exception+": True},
    exc_ensures={k: [("refused-event-leaves-no-trace", UNTOUCHED), ("refused-event-is-not-broadcast", NO_BROADCAST),
                     ("transaction-closed-and-slot-released", "not ghost('txn_open') and ghost('slots_held') == 0")]
                 for k in ("StorageError", "AuthenticationError", "EngineError+", "Exception+")},
)
add_event_contract.ghost_params = ("r0",)
add_event = REG.unit(Unit(P, "DBStorage.add_event", add_event_contract, props=["C03", "C04", "C05", "C06", "C07", "C08", "C09", "C14", "C16", "C19", "C20"], ghost_init=ghost_db,
                          canaries=[("never-stores", "not result[1]")]))
add_event.obligation_props = [
    ("sql:insert-only-validated", ["C03", "C16"]), ("sql:insert-only-authorized", ["C14"]), ("sql:insert-is-the-submitted", ["C04", "C03"]),
    ("broadcast:local:only-validated", ["C03", "C16"]), ("broadcast:peers:only-validated", ["C03", "C16"]),
    # C20: the id is announced to the other workers only after the row is committed (they look it up by id at once)
    ("broadcast:peers:after-commit", ["C07", "C20"]),
    ("only-authorized", ["C14"]), ("only-newly-stored", ["C06", "C05"]), ("after-commit", ["C07"]),
    ("post:accepted-only-validated-and-authorized", ["C03", "C14", "C16"]),
    ("post:flag-iff", ["C06"]), ("post:returns-the", ["C06"]), ("post:stored-event", ["C06"]), ("post:duplicate", ["C06"]), ("post:broadcast-iff", ["C06", "C05"]),
    ("post:transaction-closed", ["C07", "C19"]), ("post:single-transaction", ["C07", "C08", "C09"]), ("sql:", ["C07", "C08", "C09"]),
    # C19: a slot of the shared add semaphore that is not released on some exit wedges every later EVENT of every connection
    ("excpost:EngineError+:transaction-closed-and-slot-released", ["C06", "C07", "C19"]), ("excpost:Exception+:transaction-closed-and-slot-released", ["C06", "C07", "C19"]),
    ("excpost:StorageError:transaction-closed-and-slot-released", ["C06", "C07", "C19"]), ("excpost:AuthenticationError:transaction-closed-and-slot-released", ["C06", "C07", "C19"]),
    ("post:transaction-closed", ["C07", "C19"]),
    ("excpost:", ["C06", "C07", "C08", "C09"]), ("call:", ["C07", "C08", "C09"]), ("exc:", ["C19", "C08", "C09"]),
]


@REG.model("jint")
def _jint(sx, args, kwargs, st, node):
    """spec accessor: the integer value of payload[key] (as Event(**payload) reads it)"""
    from pyvc import builtins as B
    j = B.J()
    return [R(st, Val(V.Int, j["int"](j["get"](args[0].term, args[1].term))))]


# ---- Subscription.run_query (SQL): stored results then exactly one EOSE sentinel; output validator on every event ----------
from .base import QueueModel, CLIENT, OUTPUT_OK  # noqa: E402

REG.classes["SQLSub"] = {
    "log": lambda sx, st, name: LOGGER, "sub_id": V.Str, "client_id": CLIENT, "auth_token": V.Opt(TOKEN), "filters": V.Opaque("Filters"),
    "query": V.Opaque("SQLText"), "queue": lambda sx, st, name: Conc(CountingQueue()), "storage": V.ObjT("SQLSubStorage"),
    "__frozen__": ("sub_id", "client_id", "queue", "storage", "query", "filters"),
}
REG.classes["SQLSubStorage"] = {"check_output": V.Opt(V.Opaque("OutputValidator")), "__frozen__": ("check_output",)}


class CountingQueue(QueueModel):
    """queue.put((sub_id, event|None)): counts events / sentinels; C14 typestate: an event is only put after the configured
    output validator accepted it"""

    def __pyvc_getattr__(self, sx, attr, st, node):
        if attr != "put":
            raise Unsupported("queue.%s" % attr, node)

        def put(sx2, a, k, s, n):
            item = a[0]
            if isinstance(item, Val) and isinstance(item.ty, V.Tuple):
                item = Conc(tuple(Val(t, item.ty.field(item.term, i)) for i, t in enumerate(item.ty.items)))
            sid, ev = item.v
            is_sentinel = isinstance(ev, Val) and isinstance(ev.ty, V._None)
            sx2.oblige(s, "%s/put:under-own-subscription-id" % sx2.cur_func, sx2.eq(sid, s.ghost["own_sub_id"], s), "typestate", n, props=["C13"])
            if is_sentinel:
                s.ghost["n_eose_put"] = Val(V.Int, s.ghost["n_eose_put"].term + 1)
            else:
                co = s.ghost["check_output"]
                t = co.ty
                allowed = z3.Or(t.is_none(co.term), OUTPUT_OK(t.get(co.term), ev.term))
                sx2.oblige(s, "%s/put:event-passed-the-output-validator" % sx2.cur_func, allowed, "typestate", n, props=["C14"])
                sx2.oblige(s, "%s/put:no-event-after-eose" % sx2.cur_func, s.ghost["n_eose_put"].term == 0, "typestate", n, props=["C13"])
                s.ghost["n_event_put"] = Val(V.Int, s.ghost["n_event_put"].term + 1)
            return [R(s, NONE)]
        return [R(st, Func(put, "queue.put"))]


class StoredResults:
    """self.storage.run_query(query, if_long=...) (own contract: DBStorage.run_query): an async generator over stored events;
    it swallows its own exceptions (logs them) and ends"""

    def __pyvc_iter__(self, sx, st, node):
        return ("opaque", self)

    def next(self, sx, st, k):
        return [R(st, sx.fresh(EVENT, "stored", st))]


@REG.method("SQLSubStorage", "run_query", frame=[])
def _storage_run_query(sx, args, kwargs, st, node):
    return [R(st, Conc(StoredResults()))]


@REG.hook("call", repr(V.Opaque("OutputValidator")))
def _call_output_validator2(sx, f, args, kwargs, st, node):
    """the configured output validator (ASSUMED arbitrary predicate; may raise)"""
    return [R(st, Val(V.Bool, OUTPUT_OK(f.term, args[0].term))), R(st.fork(), None, Exc("Exception", exact=False))]


def ghost_runq(sx, st):
    st.ghost["n_eose_put"] = V.mk_int(0)
    st.ghost["n_event_put"] = V.mk_int(0)


def setup_runq(sx, st, params):
    so = st.getcell(params["self"].cell)
    st.ghost["own_sub_id"] = so["sub_id"]
    st.ghost["check_output"] = st.getcell(so["storage"].cell)["check_output"]


run_query_sql = REG.unit(Unit(
    P, "Subscription.run_query",
    Contract("Subscription.run_query", {"self": V.ObjT("SQLSub")},
             ensures=[("exactly-one-eose-sentinel-at-the-end", "ghost('n_eose_put') == 1")],
             # C13: the sentinel must be sent on every path, also when the output validator fails
             raises={}),
    loops={1: LoopSpec("validated", index="_a", invariants=[("no-eose-yet", "ghost('n_eose_put') == 0")]),
           2: LoopSpec("plain", index="_b", invariants=[("no-eose-yet", "ghost('n_eose_put') == 0")])},
    props=["C13", "C14"], ghost_init=ghost_runq, setup=setup_runq,
    canaries=[("never-finishes", "False")],
))
run_query_sql.ghost_havoc = lambda sx, body, st: [st.ghost.__setitem__(g, sx.fresh(V.Int, "g_" + g, st)) for g in ("n_eose_put", "n_event_put")]
run_query_sql.obligation_props = [("put:event-passed", ["C14"]), ("put:", ["C13"]), ("post:", ["C13"]), ("exc:", ["C13"]), ("inv:", ["C13"])]


# ---------------------------------------------------------------------------------------------------- DBStorage.run_query (C13, C19)
# the async generator behind every stored-events query.  It holds one of the `num_concurrent_reqs` slots of the shared query semaphore
# while it streams; the consumer may abandon it at any yield (CLOSE, a REQ reusing the id, disconnect).  Whatever the exit -- exhaustion,
# an engine error (logged), GeneratorExit, cancellation -- the slot and the connection are given back: a leaked slot silences every
# later REQ of every connection once the semaphore is used up (C13 "never silent", C19 "never wedges other connections").
@REG.model("event_from_tuple")
def _event_from_tuple(sx, args, kwargs, st, node):
    """event_from_tuple(row) (util; own round trip is a bounded check of C04): the event of that row"""
    return [R(st, sx.fresh(EVENT, "row_event", st))]


REG.classes["DBStorageQ"] = {
    "log": lambda sx, st, name: LOGGER,
    "db": lambda sx, st, name: Conc(SQL.Engine()),
    "query_slot": lambda sx, st, name: Conc(SQL.SemaphoreCM()),
    "stat_collector": lambda sx, st, name: Conc(StatCollector()),
}
_RELEASED = ("slot-and-connection-released", "ghost('slots_held') == 0 and ghost('conns_open') == 0")
run_query_storage = REG.unit(Unit(
    P, "DBStorage.run_query",
    Contract("DBStorage.run_query", {"self": V.ObjT("DBStorageQ"), "query": V.Opaque("SQLText")},
             ensures=[_RELEASED],
             raises={"GeneratorExit": True, "CancelledError": True},
             exc_ensures={"GeneratorExit": [_RELEASED], "CancelledError": [_RELEASED]}),
    loops={"result": LoopSpec("rows", index="_r", invariants=[("holding-one-slot", "ghost('slots_held') == 1 and ghost('conns_open') == 1"), ("counter", "'count' in counter")])},
    props=["C13", "C19"], ghost_init=ghost_db,
    canaries=[("never-finishes", "False")],
))
run_query_storage.yield_may_abort = True
run_query_storage.param_defaults = {"if_long": lambda sx, st: NONE}
run_query_storage.ghost_havoc = lambda sx, body, st: None
