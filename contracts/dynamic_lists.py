"""
Sidecar contracts for nostr_relay/dynamic_lists.py  (property C16: dynamic allow/deny lists).
"""
import z3
from pyvc import vals as V
from pyvc.vals import Val, Ref, Func, Conc, NONE
from pyvc.sx import R, Exc, LoopSpec, fresh_name, Unsupported
from .common import REG, Contract, Unit, SpecFunc, LOGGER, EVENT, TAGS, clock_read
from .validators import CFG, clock0

P = "nostr_relay/dynamic_lists.py"
BSET = V.Set(V.Bytes)


def _global_set(name):
    def get(sx, st):
        key = "__cell_" + name
        if key not in st.ghost:
            v = sx.fresh(BSET, name, st)
            st.ghost[key] = Conc(st.alloc(v))
        return Ref(BSET, st.ghost[key].v)
    return get


REG.globals["ALLOWED_PUBKEYS"] = _global_set("ALLOWED_PUBKEYS")
REG.globals["DENIED_PUBKEYS"] = _global_set("DENIED_PUBKEYS")

BOUND = ("(bool(ALLOWED_PUBKEYS) and bytes.fromhex(event.pubkey) not in ALLOWED_PUBKEYS)"
         " or (bool(DENIED_PUBKEYS) and bytes.fromhex(event.pubkey) in DENIED_PUBKEYS)")
REG.unit(Unit(
    P, "is_pubkey_allowed",
    Contract("is_pubkey_allowed", {"event": EVENT, "config": CFG},
             ensures=[("accepted-only-if-listed", "not (%s)" % BOUND)],
             raises={"StorageError": BOUND,
                     # a malformed pubkey is refused as well (fail-closed) -- but only when a list is enforced
                     "ValueError": "not fromhex_ok(event.pubkey) and (bool(ALLOWED_PUBKEYS) or bool(DENIED_PUBKEYS))"}),
    props=["C16"], setup=clock0, canaries=[("never-accepts", "False")],
))

# ---------------------------------------------------------------------------------------------
# ListBuilder.run_once
# ---------------------------------------------------------------------------------------------
EVLIST = V.List(EVENT)
REG.classes["ListBuilder"] = {"log": lambda sx, st, name: LOGGER, "initial": V.List(V.Str)}


class QueryResults:
    """get_storage().run_single_query(queries) (ASSUMED): an async iterator over stored events; each step yields an
    event (recorded in the ghost list `yielded_<kind>`) or fails with a storage-engine error"""

    def __init__(self, which):
        self.which = which

    def __pyvc_iter__(self, sx, st, node):
        return ("opaque", self)

    def next(self, sx, st, k):
        g = "yielded_" + self.which
        ev = sx.fresh(EVENT, "ev", st)
        log = st.ghost[g]
        st.assume(EVLIST.n(log.term) == k.term)
        st.ghost[g] = Val(EVLIST, EVLIST.mk(z3.Store(EVLIST.arr(log.term), k.term, ev.term), k.term + 1))
        s2 = st.fork()
        return [R(st, ev), R(s2, None, Exc("EngineError", exact=False))]


class StorageForLists:
    def __pyvc_getattr__(self, sx, attr, st, node):
        if attr == "run_single_query":
            def rsq(sx2, a, k, s, n):
                which = s.ghost["__which_query"].v
                return [R(s, Conc(QueryResults(which)))]
            return [R(st, Func(rsq, "run_single_query"))]
        raise Unsupported("storage." + attr, node)


@REG.model("get_storage")
def _get_storage(sx, args, kwargs, st, node):
    return [R(st, Conc(StorageForLists()))]


class Options:
    """self.options: allow_list_queries / deny_list_queries are (possibly empty) lists of filters"""

    def __init__(self, allow, deny):
        self.allow, self.deny = allow, deny

    def __pyvc_getattr__(self, sx, attr, st, node):
        if attr == "get":
            def get(sx2, a, k, s, n):
                key = z3.simplify(a[0].term)
                if not z3.is_string_value(key):
                    raise Unsupported("options.get with symbolic key", n)
                name = key.as_string()
                if name == "allow_list_queries":
                    s.ghost["__which_query"] = Conc("allow")
                    return [R(s, self.allow)]
                if name == "deny_list_queries":
                    s.ghost["__which_query"] = Conc("deny")
                    return [R(s, self.deny)]
                return [R(s, a[1] if len(a) > 1 else NONE)]
            return [R(st, Func(get, "options.get"))]
        raise Unsupported("options." + attr, node)


class _Yielded:
    pass


def _yielded(sx, st):
    which = st.ghost.get("__which_query")
    return st.ghost["yielded_" + (which.v if which is not None else "allow")]


REG.globals["YIELDED"] = _yielded

REG.spec_funcs["ptag_ok"] = SpecFunc(REG, "ptag_ok", [("tag", V.List(V.Str))], V.Bool, """
def ptag_ok(tag):
    # a p tag whose value is a 64-character hex pubkey (case-insensitively)
    return len(tag) >= 2 and tag[0] == 'p' and len(tag[1].lower()) == 64 and not any(c not in 'abcdef0123456789' for c in tag[1].lower())
""")
REG.spec_funcs["from_tags"] = SpecFunc(REG, "from_tags", [("x", V.Bytes), ("tags", TAGS), ("n", V.Int)], V.Bool, """
def from_tags(x, tags, n):
    return any_range(0, n, lambda j: ptag_ok(tags[j]) and x == bytes.fromhex(tags[j][1].lower()))
""")
REG.spec_funcs["from_events"] = SpecFunc(REG, "from_events", [("x", V.Bytes), ("evs", EVLIST), ("n", V.Int)], V.Bool, """
def from_events(x, evs, n):
    return any_range(0, n, lambda k: from_tags(x, evs[k].tags, len(evs[k].tags)))
""")
REG.spec_funcs["from_initial"] = SpecFunc(REG, "from_initial", [("x", V.Bytes), ("initial", V.List(V.Str))], V.Bool, """
def from_initial(x, initial):
    return any_range(0, len(initial), lambda i: x == bytes.fromhex(initial[i]))
""")


def setup_run_once(sx, st, params):
    clock0(sx, st, params)
    qa = sx.fresh(V.List(V.Json), "allow_queries", st)
    qd = sx.fresh(V.List(V.Json), "deny_queries", st)
    st.getcell(params["self"].cell)["options"] = Conc(Options(qa, qd))
    st.env["__allow_q"] = qa
    st.env["__deny_q"] = qd
    st.ghost["yielded_allow"] = Val(EVLIST, EVLIST.empty())
    st.ghost["yielded_deny"] = Val(EVLIST, EVLIST.empty())
    # touch the globals so their entry values exist
    REG.globals["ALLOWED_PUBKEYS"](sx, st)
    REG.globals["DENIED_PUBKEYS"](sx, st)



run_once_contract = Contract(
    "ListBuilder.run_once", {"self": V.ObjT("ListBuilder"), "x0": V.Bytes},
    requires=[("static-whitelist-is-hex", "all_range(0, len(self.initial), lambda i: fromhex_ok(self.initial[i]))")],
    ensures=[
        ("deny-list-kept-without-queries", "implies(not bool(__deny_q), (x0 in DENIED_PUBKEYS) == (x0 in old(DENIED_PUBKEYS)))"),
        ("allow-list-kept-without-queries-and-whitelist",
         "implies(not bool(__allow_q) and not bool(self.initial), (x0 in ALLOWED_PUBKEYS) == (x0 in old(ALLOWED_PUBKEYS)))"),
    ],
    # only a failing storage query may end the refresh early; in particular no ValueError from bytes.fromhex
    raises={"EngineError+": True},
)
run_once_contract.ghost_params = ("x0",)
run_once = REG.unit(Unit(
    P, "ListBuilder.run_once", run_once_contract,
    props=["C16"], setup=setup_run_once,
    loops={
        "event.tags": LoopSpec("tags", index="_j", iter_post=[
            # one step of the fold: exactly the 64-hex p-tag values (lower-cased) enter the collected set
            ("collects-exactly-valid-p-tags",
             "implies(_exit != 'raise', (x0 in local_set) == ((x0 in head_local_set) or (ptag_ok(tag) and x0 == bytes.fromhex(tag[1].lower()))))"),
        ]),
    },
    canaries=[("deny-list-always-empty", "not (x0 in DENIED_PUBKEYS)")],
))
run_once.local_types = {"local_set": BSET}
run_once.ghost_const = ("clock",)
run_once.stmt_hints = [
    # what a validator thread can observe right after each mutation of a global list:
    # a list that is enforced before and after the refresh must never be observed empty in between
    ("global_set.", {"_old_allowed": "old(ALLOWED_PUBKEYS)"}, [],
     [("enforced-list-never-observed-empty",
       "implies(list_kind == 'allow' and bool(_old_allowed) and bool(local_set), bool(ALLOWED_PUBKEYS))")]),
    # the refresh installs exactly the collected set
    ("global_set.intersection_update(local_set)", {}, [],
     [("installs-exactly-the-collected-set", "(x0 in global_set) == (x0 in local_set)")]),
    # the static whitelist is added (only) to a non-empty allow list
    ("ALLOWED_PUBKEYS.update(", {"_pre": "ALLOWED_PUBKEYS"}, [],
     [("adds-exactly-the-static-whitelist", "(x0 in ALLOWED_PUBKEYS) == ((x0 in _pre) or from_initial(x0, self.initial))")]),
]
