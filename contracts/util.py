"""
Sidecar contracts for nostr_relay/util.py: event_as_json  (C04: every EVENT frame is well-formed JSON carrying the event verbatim).
String values are abstracted by regular languages (pyvc string classes); the frame grammar below is the target.
"""
import z3
from pyvc import vals as V
from pyvc.vals import Val, Ref, Func, Conc, NONE
from pyvc.sx import R, Exc, LoopSpec, fresh_name, Unsupported
from .common import REG, Contract, Unit, SpecFunc, EVENT, assume_doc

P = "nostr_relay/util.py"
Re, Cat, Star, Opt_, Un, Rng = z3.Re, z3.Concat, z3.Star, z3.Option, z3.Union, z3.Range

HEX = Un(Rng("0", "9"), Rng("a", "f"))
HEX64 = z3.Loop(HEX, 64, 64)
HEX128 = z3.Loop(HEX, 128, 128)
INT = Cat(Opt_(Re("-")), z3.Plus(Rng("0", "9")))
# a JSON string literal as produced by json.encoder.encode_basestring: quote, then characters other than quote, backslash
# and control characters, or backslash escapes, then quote
PLAIN = z3.Intersect(Rng(chr(0x20), chr(0x2FFFF)), z3.Complement(Un(Re('"'), Re("\\"))))
ESC = Cat(Re("\\"), Un(Re('"'), Re("\\"), Re("/"), Re("b"), Re("f"), Re("n"), Re("r"), Re("t"), Cat(Re("u"), z3.Loop(Un(Rng("0", "9"), Rng("a", "f"), Rng("A", "F")), 4, 4))))
JSTRING = Cat(Re('"'), Star(Un(PLAIN, ESC)), Re('"'))
ITEM = Un(JSTRING, INT)
TAG = Cat(Re("["), Opt_(Cat(ITEM, Star(Cat(Re(","), ITEM)))), Re("]"))
TAGLIST = Opt_(Cat(TAG, Star(Cat(Re(","), TAG))))


def _obj(*pairs):
    parts = []
    for i, (k, v) in enumerate(pairs):
        parts.append(Re(("," if i else "") + '"%s":' % k))
        parts.append(v)
    return Cat(Re("{"), *parts, Re("}"))


def quoted(r):
    return Cat(Re('"'), r, Re('"'))


HEXS = Star(HEX)  # well-formedness of the frame does not depend on the number of hex digits
EVENT_OBJ = _obj(("id", quoted(HEXS)), ("created_at", INT), ("pubkey", quoted(HEXS)), ("kind", INT), ("sig", quoted(HEXS)),
                 ("content", JSTRING), ("tags", Cat(Re("["), TAGLIST, Re("]"))))
EVENT_FRAME = Cat(Re('["EVENT",'), JSTRING, Re(","), EVENT_OBJ, Re("]"))
EOSE_FRAME = Cat(Re('["EOSE",'), JSTRING, Re("]"))
NAMED_RE = {"hex": Star(HEX), "hex64": HEX64, "hex128": HEX128, "int": INT, "jstring": JSTRING, "event_frame": EVENT_FRAME, "eose_frame": EOSE_FRAME,
            "event_object": EVENT_OBJ}

assume_doc("ENC", "json.encoder.encode_basestring(s) returns a JSON string literal (quote, characters other than quote/backslash/control "
                  "characters or backslash escapes, quote) that decodes to s")
DECODE = REG.ufun("json_string_decode", [z3.StringSort()], z3.StringSort())


@REG.model("encode_basestring")
def _encode_basestring(sx, args, kwargs, st, node):
    v = sx.deref(args[0], st)
    if not isinstance(v.ty, V._Str):
        return [R(st, None, Exc("TypeError"))]
    f = REG.ufun("encode_basestring", [z3.StringSort()], z3.StringSort())
    r = Val(V.Str, f(v.term))
    st.assume(DECODE(r.term) == v.term)
    return [R(st, sx.with_class(r, JSTRING, st))]


@REG.model("matches")
def _matches(sx, args, kwargs, st, node):
    """spec: matches(s, 'name') -- s belongs to the named regular language"""
    name = z3.simplify(args[1].term).as_string()
    v = sx.deref(args[0], st)
    return [R(st, Val(V.Bool, z3.InRe(v.term, NAMED_RE[name])))]


CANON_EV = "matches(event.id, 'hex') and matches(event.pubkey, 'hex') and matches(event.sig, 'hex')"


def _contains(field, text):
    return "(%s) in result" % text


def lit(text):
    """python source of a string literal"""
    return repr(text)


def carries_quoted(key, field):
    return "(%s + event.%s + %s) in result" % (lit('"%s":"' % key), field, lit('"'))


def carries_bare(key, expr, trailer=","):
    return "(%s + %s + %s) in result" % (lit('"%s":' % key), expr, lit(trailer))


event_as_json = REG.unit(Unit(
    P, "event_as_json",
    Contract("event_as_json", {"sub_id": V.Str, "event": EVENT},
             # what admission (is_canonical) guarantees about a stored / accepted event
             requires=[("event-is-canonical", CANON_EV)],
             ensures=[
                 ("frame-is-wellformed-json-event-frame", "matches(result, 'event_frame')"),
                 # verbatim: each scalar field appears under its own key with its own value; the subscription id is the client's
                 ("carries-the-subscription-id", "result.startswith(%s + encode_basestring(sub_id) + %s)" % (lit('["EVENT",'), lit(","))),
                 ("carries-id", carries_quoted("id", "id")),
                 ("carries-pubkey", carries_quoted("pubkey", "pubkey")),
                 ("carries-sig", carries_quoted("sig", "sig")),
                 ("carries-created-at", carries_bare("created_at", "str(event.created_at)")),
                 ("carries-kind", carries_bare("kind", "str(event.kind)")),
                 ("carries-content", carries_bare("content", "encode_basestring(event.content)")),
             ],
             returns=V.Str),
    props=["C04"], canaries=[("empty-frame", "result == ''")],
))
