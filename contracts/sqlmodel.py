"""
Trusted model of the SQLAlchemy-core / SQLite subset used by storage/db.py (ASSUMED contracts on dependencies).

Store view (ghost):  rows : Set[ROW]   (the `events` table; ids are unique -- a table invariant assumed at entry and
preserved by INSERT OR IGNORE), plus a log of tag-row inserts.  A transaction opened with `engine.begin()` commits
on normal exit and rolls back (rows := rows at begin) when an exception leaves the block.  Every statement may fail
with an engine error.

Column expressions denote row predicates:   c.col == v | c.col < v | p & q
Statements:  select(cols).where(p) | table.delete().where(p) | delete(table).where(p) | insert.values(...)
"""
import ast
import z3
from pyvc import vals as V
from pyvc.vals import Val, Ref, Func, Conc, NONE
from pyvc.sx import R, Out, Exc, Unsupported, fresh_name
from .common import REG, EVENT, TAGS, assume_doc

assume_doc("SQL", "SQLAlchemy/SQLite as modelled in contracts/sqlmodel.py: column comparisons denote row predicates; DELETE removes exactly the "
                  "rows satisfying its WHERE; INSERT OR IGNORE adds the row iff no row has its id (rowcount 1/0); SELECT yields only rows "
                  "satisfying its WHERE; engine.begin() = one transaction, committed on normal exit, rolled back on exception; any "
                  "statement may raise an engine error")

ROW = V.Rec("Row", {"id": V.Bytes, "created_at": V.Int, "kind": V.Int, "pubkey": V.Bytes, "tags": TAGS, "sig": V.Bytes, "content": V.Str})
ROWS = V.Set(ROW)
REG.__dict__.setdefault("named_types", {})["Rec_Row"] = ROW
COLS = {"id": V.Bytes, "created_at": V.Int, "kind": V.Int, "pubkey": V.Bytes, "tags": TAGS, "sig": V.Bytes, "content": V.Str}


class Column:
    def __init__(self, name):
        self.name = name

    def term(self, row):
        return ROW.get(row, self.name)

    def __pyvc_compare__(self, sx, op, a, b, st, node):
        col, other = (a, b) if (isinstance(a, Conc) and a.v is self) else (b, a)
        flipped = col is b
        other = sx.deref(sx.lift(other) if isinstance(other, Conc) else other, st)
        ty = COLS[self.name]
        if isinstance(other.ty, V.Opt):
            if sx.feasible(st, other.ty.is_none(other.term)):
                raise Unsupported("column compared with a value that may be None (IS NULL semantics not modelled)", node)
            other = Val(other.ty.inner, other.ty.get(other.term))
        if other.ty != ty:
            other = sx.coerce(other, ty, st)
        o = other.term
        name = self.name

        def pred(row, o=o, name=name):
            c = ROW.get(row, name)
            if isinstance(op, ast.Eq):
                return c == o
            if isinstance(op, ast.NotEq):
                return c != o
            x, y = (o, c) if flipped else (c, o)
            if isinstance(op, ast.Lt):
                return x < y
            if isinstance(op, ast.LtE):
                return x <= y
            if isinstance(op, ast.Gt):
                return x > y
            if isinstance(op, ast.GtE):
                return x >= y
            raise Unsupported("column comparison operator", node)

        return [R(st, Conc(Pred(pred, "%s %s <value>" % (name, type(op).__name__))))]


def _column_getattr(self, sx, attr, st, node):
    if attr == "in_":
        def in_(sx2, a, k, s, n):
            lst = sx2.deref(a[0], s)
            ty = COLS[self.name]
            if not (isinstance(lst, Val) and isinstance(lst.ty, V.List) and lst.ty.elem == ty):
                # a sub-select or anything else the model does not interpret: SOME condition on the row (contract `true`)
                return [R(s, Conc(_unknown_pred("%s IN <uninterpreted>" % self.name)))]
            name, lt, lterm = self.name, lst.ty, lst.term

            def pred(row):
                i = z3.Int(fresh_name("in_i"))
                return z3.Exists([i], z3.And(i >= 0, i < lt.n(lterm), lt.at(lterm, i) == ROW.get(row, name)))
            return [R(s, Conc(Pred(pred, "%s IN (...)" % name)))]
        return [R(st, Func(in_, "column.in_"))]
    if attr in ("not_in", "notin_", "like", "ilike", "notlike", "is_", "is_not", "isnot", "startswith", "endswith", "contains", "between", "op", "any_", "all_"):
        # operators the model does not interpret: SOME condition on the row (contract `true`)
        return [R(st, Func(lambda sx2, a, k, s, n: [R(s, Conc(_unknown_pred("%s.%s(<uninterpreted>)" % (self.name, attr))))], "column." + attr))]
    raise Unsupported("column.%s" % attr, node)


def _unknown_pred(text):
    f = z3.Function(fresh_name("unk_rowpred"), ROW.sort(), z3.BoolSort())
    return Pred(lambda row: f(row), text)


Column.__pyvc_getattr__ = _column_getattr


class Pred:
    """a WHERE clause: python callable from a row term to a z3 Bool"""

    def __init__(self, fn, text):
        self.fn = fn
        self.text = text

    def __pyvc_binop__(self, sx, op, a, b, st, node):
        if not (isinstance(a, Conc) and isinstance(a.v, Pred) and isinstance(b, Conc) and isinstance(b.v, Pred)):
            raise Unsupported("boolean operator between a column expression and a plain value", node)
        f, g = a.v.fn, b.v.fn
        if isinstance(op, ast.BitAnd):
            return [R(st, Conc(Pred(lambda r: z3.And(f(r), g(r)), "(%s AND %s)" % (a.v.text, b.v.text))))]
        if isinstance(op, ast.BitOr):
            return [R(st, Conc(Pred(lambda r: z3.Or(f(r), g(r)), "(%s OR %s)" % (a.v.text, b.v.text))))]
        raise Unsupported("operator on column expressions", node)


class ColumnNS:
    def __pyvc_getattr__(self, sx, attr, st, node):
        if attr in COLS:
            return [R(st, Conc(Column(attr)))]
        raise Unsupported("unknown column %s" % attr, node)


class Table:
    def __init__(self, name="events"):
        self.name = name

    def __pyvc_getattr__(self, sx, attr, st, node):
        if attr == "c":
            return [R(st, Conc(ColumnNS()))]
        if attr == "delete":
            return [R(st, Func(lambda sx2, a, k, s, n: [R(s, Conc(Stmt("delete", None)))], "table.delete"))]
        raise Unsupported("table.%s" % attr, node)


class Stmt:
    def __init__(self, kind, pred=None, cols=None, values=None):
        self.kind, self.pred, self.cols, self.values = kind, pred, cols, values

    def __pyvc_getattr__(self, sx, attr, st, node):
        if attr == "where":
            def where(sx2, a, k, s, n):
                p = a[0]
                if self.kind == "unknown" or not (isinstance(p, Conc) and isinstance(p.v, Pred)):
                    return [R(s, Conc(Stmt("unknown")))]
                newp = p.v if self.pred is None else Pred(lambda r, f=self.pred.fn, g=p.v.fn: z3.And(f(r), g(r)), "..")
                return [R(s, Conc(Stmt(self.kind, newp, self.cols, self.values)))]
            return [R(st, Func(where, "stmt.where"))]
        if attr == "values":
            def values(sx2, a, k, s, n):
                return [R(s, Conc(Stmt(self.kind, self.pred, self.cols, dict(k))))]
            return [R(st, Func(values, "stmt.values"))]
        raise Unsupported("statement.%s" % attr, node)


class SA:
    """the `sa` (sqlalchemy) module"""

    def __pyvc_getattr__(self, sx, attr, st, node):
        if attr == "select":
            def select(sx2, a, k, s, n):
                cols = []
                for c in a:
                    if isinstance(c, Conc) and isinstance(c.v, Column):
                        cols.append(c.v.name)
                    elif isinstance(c, Conc) and isinstance(c.v, Table):
                        cols = ["id", "created_at", "kind", "pubkey", "tags", "sig", "content"]
                    else:
                        # a select list the model cannot interpret (a function, a sub-select, a value without contract): the
                        # statement is unknown -- executing it may do anything to the tables and returns anything
                        return [R(s, Conc(Stmt("unknown")))]
                return [R(s, Conc(Stmt("select", None, cols)))]
            return [R(st, Func(select, "sa.select"))]
        if attr == "delete":
            return [R(st, Func(lambda sx2, a, k, s, n: [R(s, Conc(Stmt("delete", None)))], "sa.delete"))]
        raise Unsupported("sa.%s" % attr, node)


REG.globals["sa"] = Conc(SA())


def engine_error():
    return Exc("EngineError", exact=False)


class ResultRows:
    """result of a SELECT: iteration yields tuples of the selected columns of rows that are in the table and satisfy WHERE"""

    def __init__(self, stmt):
        self.stmt = stmt

    def _row(self, sx, st):
        r = sx.fresh(ROW, "row", st)
        st.assume(z3.Select(st.ghost["rows"].term, r.term))
        if self.stmt.pred is not None:
            st.assume(self.stmt.pred.fn(r.term))
        return r

    def _tuple(self, r):
        return Conc(tuple(Val(COLS[c], ROW.get(r.term, c)) for c in self.stmt.cols))

    def __pyvc_iter__(self, sx, st, node):
        return ("opaque", self)

    def next(self, sx, st, k):
        r = self._row(sx, st)
        st.ghost["selected_row"] = r
        return [R(st, self._tuple(r))]

    def __pyvc_getattr__(self, sx, attr, st, node):
        if attr in ("first", "fetchone"):
            def first(sx2, a, k, s, n):
                s2 = s.fork()
                # no row: only if no row satisfies the WHERE clause
                rr = sx2.fresh(ROW, "any_row", s2)
                x = z3.Const(fresh_name("rx"), ROW.sort())
                body = z3.And(z3.Select(s2.ghost["rows"].term, x), self.stmt.pred.fn(x) if self.stmt.pred else z3.BoolVal(True))
                s2.assume(z3.Not(z3.Exists([x], body)))
                r = self._row(sx2, s)
                s.ghost["selected_row"] = r
                return [R(s, self._tuple(r)), R(s2, NONE)]
            return [R(st, Func(first, "result.first"))]
        if attr == "rowcount":
            return [R(st, st.ghost["last_rowcount"])]
        raise Unsupported("result.%s" % attr, node)


class Connection:
    """an open transaction/connection"""

    def __pyvc_getattr__(self, sx, attr, st, node):
        if attr == "execute":
            return [R(st, Func(self.execute, "conn.execute"))]
        raise Unsupported("conn.%s" % attr, node)

    def execute(self, sx, args, kwargs, st, node):
        outs = []
        stmt = args[0]
        # typestate: statements run inside the transaction this connection belongs to
        in_txn = st.ghost["txn_open"].term
        sx.oblige(st, "%s/sql:statement-inside-open-transaction@%s" % (sx.cur_func, getattr(node, "lineno", "?")), in_txn, "typestate", node)
        st.ghost["n_statements"] = Val(V.Int, st.ghost["n_statements"].term + 1)
        failed = st.fork()
        failed.ghost["engine_failed"] = V.mk_bool(True)     # C07: a statement that failed must abort the transaction, not be swallowed
        outs.append(R(failed, None, engine_error()))
        rows = st.ghost["rows"]
        if isinstance(stmt, Conc) and isinstance(stmt.v, Stmt):
            sv = stmt.v
            if sv.kind == "select":
                outs.append(R(st, Conc(ResultRows(sv))))
                return outs
            if sv.kind == "delete":
                if sv.pred is None:
                    raise Unsupported("DELETE without WHERE", node)
                x = z3.Const(fresh_name("dx"), ROW.sort())
                st.ghost["rows"] = Val(ROWS, z3.Lambda([x], z3.And(z3.Select(rows.term, x), z3.Not(sv.pred.fn(x)))))
                st.ghost["n_deletes"] = Val(V.Int, st.ghost["n_deletes"].term + 1)
                st.ghost["last_rowcount"] = sx.fresh(V.Int, "rowcount", st)
                outs.append(R(st, Conc(ResultRows(Stmt("select", sv.pred, [])))))
                return outs
            if sv.kind == "insert_event":
                vals = sv.values
                need = ["id", "created_at", "kind", "pubkey", "tags", "sig", "content"]
                if sorted(vals) != sorted(need):
                    raise Unsupported("INSERT with columns %s" % sorted(vals), node)
                terms = {}
                for c in need:
                    v = sx.deref(sx.lift(vals[c]) if isinstance(vals[c], Conc) else vals[c], st)
                    terms[c] = sx.coerce(v, COLS[c], st).term
                new = ROW.mk(**terms)
                x = z3.Const(fresh_name("ix"), ROW.sort())
                exists = z3.Exists([x], z3.And(z3.Select(rows.term, x), ROW.get(x, "id") == terms["id"]))
                # typestate: only validated + authorized events reach the INSERT (C03, C14, C16)
                sx.oblige(st, "%s/sql:insert-only-validated-event" % sx.cur_func, st.ghost["validated"].term, "typestate", node, props=["C03", "C16"])
                sx.oblige(st, "%s/sql:insert-only-authorized-event" % sx.cur_func, st.ghost["save_authorized"].term, "typestate", node, props=["C14"])
                ev = st.ghost["constructed_event"]
                from .common import FROMHEX
                exp = {"id": FROMHEX(EVENT.get(ev.term, "id")), "pubkey": FROMHEX(EVENT.get(ev.term, "pubkey")), "sig": FROMHEX(EVENT.get(ev.term, "sig")),
                       "created_at": EVENT.get(ev.term, "created_at"), "kind": EVENT.get(ev.term, "kind"),
                       "tags": EVENT.get(ev.term, "tags"), "content": EVENT.get(ev.term, "content")}
                sx.oblige(st, "%s/sql:insert-is-the-submitted-event" % sx.cur_func,
                          z3.And(*[terms[c] == exp[c] for c in need]), "typestate", node, props=["C04", "C03"])
                st.ghost["rows"] = Val(ROWS, z3.If(exists, rows.term, z3.Store(rows.term, new, True)))
                st.ghost["last_rowcount"] = Val(V.Int, z3.If(exists, 0, 1))
                st.ghost["inserted"] = Val(V.Bool, z3.Not(exists))
                st.ghost["n_inserts"] = Val(V.Int, st.ghost["n_inserts"].term + 1)
                outs.append(R(st, Conc(ResultRows(Stmt("select", None, [])))))
                return outs
            if sv.kind == "insert_tags":
                st.ghost["n_tag_inserts"] = Val(V.Int, st.ghost["n_tag_inserts"].term + 1)
                outs.append(R(st, Conc(ResultRows(Stmt("select", None, [])))))
                return outs
        # a statement the model cannot interpret: any effect on the tables, any result (or an engine error, added above)
        from pyvc.sx import Unknown
        sx.uncontracted.append("conn.execute of an uninterpreted statement (line %s)" % getattr(node, "lineno", "?"))
        st.ghost["rows"] = sx.fresh(ROWS, "rows_after_unknown_statement", st)
        for g in ("n_deletes", "n_inserts", "n_tag_inserts", "last_rowcount"):
            st.ghost[g] = sx.fresh(V.Int, "g_" + g, st)
        st.ghost["inserted"] = sx.fresh(V.Bool, "g_inserted", st)
        outs.append(R(st, Conc(Unknown("result of an uninterpreted statement"))))
        return outs


class BeginCM:
    """engine.begin(): one transaction"""

    def enter(self, sx, st, node):
        sx.oblige(st, "%s/sql:no-nested-transaction" % sx.cur_func, z3.Not(st.ghost["txn_open"].term), "typestate", node)
        st.ghost["txn_open"] = V.mk_bool(True)
        st.ghost["rows_at_begin"] = st.ghost["rows"]
        st.ghost["n_txn"] = Val(V.Int, st.ghost["n_txn"].term + 1)
        s2 = st.fork()
        s2.ghost["txn_open"] = V.mk_bool(False)
        return [R(st, Conc(Connection())), R(s2, None, engine_error())]

    def exit(self, sx, st, exc, node):
        st.ghost["txn_open"] = V.mk_bool(False)
        if exc is not None:
            st.ghost["rows"] = st.ghost["rows_at_begin"]  # rollback
            st.ghost["n_rollbacks"] = Val(V.Int, st.ghost["n_rollbacks"].term + 1)
            return [R(st, False)]
        # commit may fail: then nothing is applied
        s2 = st.fork()
        s2.ghost["rows"] = s2.ghost["rows_at_begin"]
        st.ghost["n_commits"] = Val(V.Int, st.ghost["n_commits"].term + 1)
        return [R(st, False), R(s2, None, engine_error())]


class Engine:
    def __pyvc_getattr__(self, sx, attr, st, node):
        if attr == "begin":
            return [R(st, Func(lambda sx2, a, k, s, n: [R(s, Conc(BeginCM()))], "db.begin"))]
        if attr == "connect":
            return [R(st, Func(lambda sx2, a, k, s, n: [R(s, Conc(ConnectCM()))], "db.connect"))]
        raise Unsupported("engine.%s" % attr, node)


class ConnectCM:
    """engine.connect(): a pooled connection without an explicit transaction (read path)"""

    def enter(self, sx, st, node):
        st.ghost["conns_open"] = Val(V.Int, st.ghost["conns_open"].term + 1)
        bad = st.fork()
        bad.ghost["conns_open"] = Val(V.Int, bad.ghost["conns_open"].term - 1)
        return [R(st, Conc(ReadConnection())), R(bad, None, engine_error())]

    def exit(self, sx, st, exc, node):
        st.ghost["conns_open"] = Val(V.Int, st.ghost["conns_open"].term - 1)
        return [R(st, False)]


class ReadConnection:
    def __pyvc_getattr__(self, sx, attr, st, node):
        if attr == "stream":
            return [R(st, Func(lambda sx2, a, k, s, n: [R(s, Conc(StreamCM()))], "conn.stream"))]
        raise Unsupported("read connection .%s" % attr, node)


class StreamCM:
    """conn.stream(query) used as `async with ... as result`"""

    def enter(self, sx, st, node):
        return [R(st, Conc(RowStream())), R(st.fork(), None, engine_error())]

    def exit(self, sx, st, exc, node):
        return [R(st, False)]


class RowStream:
    """async iteration over the result: arbitrary rows, any number of them, or an engine error"""

    def __pyvc_iter__(self, sx, st, node):
        return ("opaque", self)

    def next(self, sx, st, k):
        r = sx.fresh(ROW, "streamed_row", st)
        return [R(st, r), R(st.fork(), None, engine_error())]


class SemaphoreCM:
    """asyncio.Semaphore used with `async with`: released on every exit"""

    def enter(self, sx, st, node):
        st.ghost["slots_held"] = Val(V.Int, st.ghost["slots_held"].term + 1)
        return [R(st, NONE)]

    def exit(self, sx, st, exc, node):
        st.ghost["slots_held"] = Val(V.Int, st.ghost["slots_held"].term - 1)
        return [R(st, False)]

    def __pyvc_getattr__(self, sx, attr, st, node):
        # used by hand instead of `async with`
        if attr == "acquire":
            def acq(sx2, a, k, s, n):
                s.ghost["slots_held"] = Val(V.Int, s.ghost["slots_held"].term + 1)
                return [R(s, V.mk_bool(True))]
            return [R(st, Func(acq, "semaphore.acquire"))]
        if attr == "release":
            def rel(sx2, a, k, s, n):
                s.ghost["slots_held"] = Val(V.Int, s.ghost["slots_held"].term - 1)
                return [R(s, NONE)]
            return [R(st, Func(rel, "semaphore.release"))]
        raise Unsupported("semaphore.%s" % attr, node)


REG.ctx_managers.append((lambda m, st: isinstance(m, Conc) and isinstance(m.v, (BeginCM, SemaphoreCM, ConnectCM, StreamCM)), lambda m: m.v))


def ghost_sql(sx, st):
    st.ghost["rows"] = sx.fresh(ROWS, "rows0", st)
    st.ghost["rows_at_begin"] = st.ghost["rows"]
    st.ghost["txn_open"] = V.mk_bool(False)
    for g in ("n_statements", "n_deletes", "n_inserts", "n_tag_inserts", "n_txn", "n_commits", "n_rollbacks", "slots_held", "conns_open"):
        st.ghost[g] = V.mk_int(0)
    st.ghost["last_rowcount"] = V.mk_int(0)
    st.ghost["inserted"] = V.mk_bool(False)
    st.ghost["engine_failed"] = V.mk_bool(False)
    st.ghost["validated"] = V.mk_bool(False)
    st.ghost["save_authorized"] = V.mk_bool(False)
    st.ghost["selected_row"] = sx.fresh(ROW, "no_row", st)
    # table invariant: ids are unique
    a = z3.Const("uq_a", ROW.sort())
    b = z3.Const("uq_b", ROW.sort())
    rows = st.ghost["rows"].term
    st.assume(z3.ForAll([a, b], z3.Implies(z3.And(z3.Select(rows, a), z3.Select(rows, b), ROW.get(a, "id") == ROW.get(b, "id")), a == b)))


@REG.model("in_rows")
def _in_rows(sx, args, kwargs, st, node):
    return [R(st, Val(V.Bool, z3.Select(args[0].term, args[1].term)))]
