"""
Sidecar contracts for storage/db.py Subscription.evaluate_filter / build_query  (C01: filters are pure data for the SQL text;
C12: the LIMIT emitted) and storage/base.py ids_are_hex (the sanitiser the hex holes rely on).

The SQL text is abstracted by regular languages: every fragment appended to `subwhere` must be one of the atom shapes of the
fixed grammar below, whose literals are hex digits, decimal integers, or quote-doubled strings -- so no filter content can
leave its literal.  Target grammar = what the relay intends to send to SQLite / PostgreSQL.
"""
import z3
from pyvc import vals as V
from pyvc.vals import Val, Ref, Func, Conc, NONE
from pyvc.sx import R, Exc, LoopSpec, fresh_name, Unsupported
from .common import REG, Contract, Unit, SpecFunc, LOGGER, assume_doc
from . import util as U
from .util import Re, Cat, Star, Opt_, Un, Rng, HEX, INT, NAMED_RE

P = "nostr_relay/storage/db.py"
PB = "nostr_relay/storage/base.py"

HEXS = Star(HEX)
NOQUOTE = z3.Intersect(Rng(chr(0), chr(0x2FFFF)), z3.Complement(Re("'")))
SQ = Star(Un(NOQUOTE, Re("''")))          # body of a single-quoted SQL string literal with doubled quotes
QLIT = Cat(Re("'"), SQ, Re("'"))


def lst(item):
    return Cat(item, Star(Cat(Re(","), item)))


XHEX = Un(Cat(Re("x'"), HEXS, Re("'")), Cat(Re("'\\x"), HEXS, Re("'")))   # sqlite x'..' / postgres '\x..'
QHEX = Cat(Re("'"), HEXS, Re("'"))
ATOMS = {
    "ids-exact": Cat(Re("events.id IN ("), lst(XHEX), Re(")")),
    "ids-prefix": Un(Cat(Re("lower(hex(id)) LIKE '"), HEXS, Re("%'")), Cat(Re("encode(id, 'hex') LIKE '"), HEXS, Re("%'"))),
    "authors": Cat(Re("(pubkey IN ("), lst(XHEX), Re(") OR id IN (SELECT id FROM tags WHERE name = 'delegation' AND value IN ("),
                   # hexexact is filled in step with exact, so it is non-empty here; that relation between the two sets is not stated as a
                   # loop invariant (sets carry no size in the encoding), hence the optional list: still a fixed shape with hex-only literals
                   Opt_(lst(QHEX)), Re(")))")),
    "kinds": Cat(Re("kind IN ("), lst(INT), Re(")")),
    "since": Cat(Re("created_at >= "), INT),
    "until": Cat(Re("created_at < "), INT),
    "tag": Cat(Re("id IN (SELECT id FROM tags WHERE name = "), QLIT, Re(" AND value IN ("), lst(QLIT), Re(")) ")),
}
ATOM = Un(*ATOMS.values())
CONJ = Un(Cat(ATOM, Star(Cat(Re(" AND "), ATOM))), Re("false"))
SELECT = """
            SELECT id, created_at, kind, pubkey, tags, sig, content FROM events
        """
TAIL = Cat(Re("\n            ORDER BY created_at DESC\n            LIMIT "), z3.Plus(Rng("0", "9")), Re("\n        "))
STATEMENT = Cat(Re(SELECT), Opt_(Cat(Re(" WHERE (\n\t"), CONJ, Star(Cat(Re("\n) OR (\n"), CONJ)), Re(")"))), TAIL)
NAMED_RE.update({"sql_atom": ATOM, "sql_conj": CONJ, "sql_statement": STATEMENT, "hexs": HEXS})

assume_doc("REPL", "str.replace(\"'\", \"''\") returns a string in which every quote is doubled: it lies in ([^']|'')*  (quote-doubling lemma, assumed)")


def _replace_facts(s, a, b, r):
    # the quote-doubling lemma (ASSUMED): s.replace("'", "''") lies in ([^']|'')*
    return [z3.Implies(z3.And(a == z3.StringVal("'"), b == z3.StringVal("''")), z3.InRe(r, SQ))]


REG.replace_facts = _replace_facts

# ---- NostrQuery as seen by the SQL builder (what pydantic + ids_are_hex + check_tags guarantee; see validate units) ------
QUERY = V.Rec("NostrQuery", {
    "ids": V.Opt(V.List(V.Str)), "authors": V.Opt(V.List(V.Str)), "kinds": V.Opt(V.List(V.Int)),
    "since": V.Opt(V.Int), "until": V.Opt(V.Int), "limit": V.Opt(V.Int),
    "tags": V.Opt(V.List(V.Tuple(V.Str, V.Set(V.Str)))),
})
REG.__dict__.setdefault("named_types", {})["Rec_NostrQuery"] = QUERY


def _set_iter(sx, v, st, node):
    return ("opaque", SetElems(v))


class SetElems:
    """iteration over a set value: yields elements of the set (each exactly once is the assumed contract of set iteration)"""

    def __init__(self, v):
        self.v = v

    def next(self, sx, st, k):
        e = sx.fresh(self.v.ty.elem, "elem", st)
        st.assume(z3.Select(self.v.term, e.term))
        return [R(st, e)]


REG.set_iter = _set_iter
REG.classes["SQLSubscription"] = {"log": lambda sx, st, name: LOGGER, "is_postgres": V.Bool, "default_limit": V.Int,
                                  "__frozen__": ("is_postgres", "default_limit")}

QCLASS = ("implies(filter_obj.ids is not None, all_range(0, len(filter_obj.ids), lambda i: matches(filter_obj.ids[i], 'hexs'))) and "
          "implies(filter_obj.authors is not None, all_range(0, len(filter_obj.authors), lambda i: matches(filter_obj.authors[i], 'hexs')))")

evaluate_filter = REG.unit(Unit(
    P, "Subscription.evaluate_filter",
    Contract("Subscription.evaluate_filter", {"self": V.ObjT("SQLSubscription"), "filter_obj": QUERY, "subwhere": V.List(V.Str)},
             # established by NostrQuery.model_validate: ids/authors went through ids_are_hex
             requires=[("ids-and-authors-are-hex", QCLASS)],
             # (that every element of subwhere is an atom follows from the append-time obligations by induction over the appends;
             #  that induction is not mechanised -- see DESIGN.md, C01)
             ensures=[("returns-the-filter", "result == filter_obj")],
             raises={"ValueError": True}, modifies=["subwhere"], returns=QUERY),
    props=["C01"],
    canaries=[("appends-nothing", "len(subwhere) == len(old(subwhere))")],
))
ATOMS_INV = ("atoms", "all_range(0, len(subwhere), lambda i: matches(subwhere[i], 'sql_atom'))")
evaluate_filter.loops = {
    1: LoopSpec("ids", index="_a", invariants=[("exact-are-hex-literals", "all_range(0, len(exact), lambda i: matches(exact[i], 'xhex'))")]),
    2: LoopSpec("authors", index="_b", invariants=[
        ("exact-are-hex-literals", "forall(lambda x: implies(x in exact, matches(x, 'xhex')), x=Str)"),
        ("hexexact-are-quoted-hex", "forall(lambda x: implies(x in hexexact, matches(x, 'qhex')), x=Str)")]),
    3: LoopSpec("tags", index="_c", invariants=[]),
    4: LoopSpec("values", index="_d", invariants=[("literals-so-far-are-quoted", "all_range(0, len(pstr), lambda i: matches(pstr[i], 'qlit'))")]),
}
NAMED_RE.update({"xhex": XHEX, "qlit": QLIT, "qhex": QHEX})
evaluate_filter.local_types = {"exact": {"emptylist": V.List(V.Str), "emptyset": V.Set(V.Str)}, "hexexact": V.Set(V.Str), "pstr": V.List(V.Str)}
evaluate_filter.elem_classes = {"exact": ("xhex", XHEX), "hexexact": ("qhex", QHEX), "pstr": ("qlit", QLIT)}
evaluate_filter.refined = {"subwhere": ("sql_atom", ATOM)}   # obligation at each subwhere.append; no other use of subwhere allowed

# the induction "every append adds an atom, nothing else touches subwhere  =>  every element is an atom" is NOT mechanised:
# it is assumed at evaluate_filter's call site (normal return only; nothing is assumed about subwhere when ValueError escapes)
assume_doc("INDUCT-ATOMS", "INDUCTION BY DISCIPLINE, not by the SMT solver: 'after evaluate_filter returns normally into an initially empty subwhere, every element of "
           "subwhere is an SQL atom' (assumed at the call site in build_query) and 'every element of where is a conjunction of atoms or false' (assumed where the "
           "statement is joined) follow from (a) an obligation at every .append/.add site that the added string lies in the class, discharged by the solver, and "
           "(b) a syntactic check, re-run on the real source every time, that the collection is used in no other way (pyvc.verify.check_refined_discipline)")
evaluate_filter.contract.trusted_ensures = [
    ("all-appended-fragments-are-atoms", "implies(len(old(subwhere)) == 0, all_range(0, len(subwhere), lambda i: matches(subwhere[i], 'sql_atom')))"),
]


# ---------------------------------------------------------------------------------------------------- Subscription.build_query
def _nostrquery_ctor(sx, args, kwargs, st, node):
    # NostrQuery(): every field None except limit, whose default is Config.max_limit read at class-definition time
    if args or kwargs:
        raise Unsupported("NostrQuery(...) with arguments", node)
    q = sx.fresh(QUERY, "empty_query", st)
    for f in ("ids", "authors", "kinds", "since", "until", "tags"):
        ft = QUERY.fields[f]
        st.assume(ft.is_none(QUERY.get(q.term, f)))
    lim = QUERY.get(q.term, "limit")
    lt = QUERY.fields["limit"]
    st.assume(z3.Implies(z3.Not(lt.is_none(lim)), lt.get(lim) >= 0))
    return [R(st, q)]


from .base import NostrQueryCls  # noqa: E402

# the class object is shared with contracts/base.py (NostrQuery.model_validate); calling it is the constructor above
NostrQueryCls.__pyvc_call__ = lambda self, sx, args, kwargs, st, node: _nostrquery_ctor(sx, args, kwargs, st, node)

QLIMITS = "all_range(0, len(filters), lambda i: implies(filters[i].limit is not None, filters[i].limit >= 0))"
build_query = REG.unit(Unit(
    P, "Subscription.build_query",
    Contract("Subscription.build_query", {"self": V.ObjT("SQLSubscription"), "filters": V.List(QUERY)},
             # established by NostrQuery.model_validate (ids_are_hex; Field(ge=0) on limit) and by BaseSubscription.__init__
             requires=[("ids-and-authors-are-hex", "all_range(0, len(filters), lambda j: (%s))" % QCLASS.replace("filter_obj", "filters[j]").replace("lambda i", "lambda i2").replace("[i]", "[i2]")),
                       ("limits-are-non-negative", QLIMITS),
                       ("default-limit-is-non-negative", "self.default_limit >= 0")],
             ensures=[("returns", "True")], raises={}),
    loops={1: LoopSpec("filters", index="_f", invariants=[
        ("limit-capped", "implies(limit is not None, 0 <= limit and limit <= self.default_limit)"),
    ])},
    props=["C01", "C12", "C11", "C02"],
    canaries=[("never-returns", "False")],
))
build_query.local_types = {"where": V.Set(V.Str), "subwhere": {"emptylist": V.List(V.Str)}, "new_filters": V.List(QUERY), "limit": V.Opt(V.Int)}
build_query.elem_classes = {"where": ("sql_conj", CONJ), "subwhere": ("sql_atom", ATOM)}
build_query.stmt_hints = [
    # C01: whatever the filters contain, the text handed to the engine is a statement of the fixed grammar
    ("select += f", {}, [], [("statement-is-in-the-fixed-grammar", "matches(select, 'sql_statement')"),
                              # C12: the LIMIT literal never exceeds the configured cap
                              ("limit-literal-is-capped", "limit is not None and 0 <= limit and limit <= self.default_limit")]),
]
build_query.refined = {"where": ("sql_conj", CONJ)}   # every disjunct is a conjunction of atoms or 'false' (obligation at each where.add)
# a rejected filter must contribute `false` (C11: adding a condition never adds results; C02/C01: the statement means the filters)
build_query.obligation_props = [("limit", ["C12"]), ("join:subwhere", ["C01", "C11", "C02"]), ("element-in-sql_conj", ["C01", "C11", "C02"]), ("", ["C01"])]
REG.contracts["SQLSubscription.evaluate_filter"] = evaluate_filter.contract


# ---------------------------------------------------------------------------------------------------- base.ids_are_hex
# the sanitiser behind the 'ids-and-authors-are-hex' precondition of evaluate_filter / build_query: pydantic runs it as the
# AfterValidator of NostrQuery.ids and NostrQuery.authors (that wiring is read from the class body, not proved)
ids_are_hex = REG.unit(Unit(
    PB, "ids_are_hex",
    Contract("ids_are_hex", {"hexids": V.List(V.Str)},
             ensures=[("every-returned-id-is-lowercase-hex", "all_range(0, len(result), lambda i: matches(result[i], 'hexs'))"),
                      ("every-returned-id-has-at-least-64-digits", "all_range(0, len(result), lambda i: len(result[i]) >= 64)"),
                      ("nothing-dropped-or-added", "len(result) == len(hexids)")],
             raises={"ValueError": True}, returns=V.List(V.Str)),
    loops={1: LoopSpec("ids", index="_i", invariants=[
        ("so-far-hex", "all_range(0, len(new_ids), lambda i: matches(new_ids[i], 'hexs'))"),
        ("so-far-long", "all_range(0, len(new_ids), lambda i: len(new_ids[i]) >= 64)"),
        ("one-per-input", "len(new_ids) == _i"),
    ])},
    props=["C01"],
    canaries=[("never-returns", "False")],
))
ids_are_hex.local_types = {"new_ids": V.List(V.Str)}
