"""
Sidecar contracts for storage/db.py Subscription.evaluate_filter / build_query  (C01: filters are pure data for the SQL text;
C12: the LIMIT emitted) and storage/base.py ids_are_hex (the sanitiser the hex holes rely on).

The SQL text is abstracted by regular languages: every fragment appended to `subwhere` must be one of the atom shapes of the
fixed grammar below, whose literals are hex digits, decimal integers, or quote-doubled strings -- so no filter content can
leave its literal.  Target grammar = what the relay intends to send to SQLite / PostgreSQL.
"""
import z3
from pyvc import vals as V
from pyvc.vals import Val, Ref, Func, Conc, NONE
from pyvc.sx import R, Exc, LoopSpec, fresh_name, Unsupported
from .common import REG, Contract, Unit, SpecFunc, LOGGER, assume_doc
from . import util as U
from .util import Re, Cat, Star, Opt_, Un, Rng, HEX, INT, NAMED_RE

P = "nostr_relay/storage/db.py"
PB = "nostr_relay/storage/base.py"

HEXS = Star(HEX)
NOQUOTE = z3.Intersect(Rng(chr(0), chr(0x2FFFF)), z3.Complement(Re("'")))
SQ = Star(Un(NOQUOTE, Re("''")))          # body of a single-quoted SQL string literal with doubled quotes
QLIT = Cat(Re("'"), SQ, Re("'"))


def lst(item):
    return Cat(item, Star(Cat(Re(","), item)))


XHEX = Un(Cat(Re("x'"), HEXS, Re("'")), Cat(Re("'\\x"), HEXS, Re("'")))   # sqlite x'..' / postgres '\x..'
QHEX = Cat(Re("'"), HEXS, Re("'"))
ATOMS = {
    "ids-exact": Cat(Re("events.id IN ("), lst(XHEX), Re(")")),
    "ids-prefix": Un(Cat(Re("lower(hex(id)) LIKE '"), HEXS, Re("%'")), Cat(Re("encode(id, 'hex') LIKE '"), HEXS, Re("%'"))),
    "authors": Cat(Re("(pubkey IN ("), lst(XHEX), Re(") OR id IN (SELECT id FROM tags WHERE name = 'delegation' AND value IN ("), lst(QHEX), Re(")))")),
    "kinds": Cat(Re("kind IN ("), lst(INT), Re(")")),
    "since": Cat(Re("created_at >= "), INT),
    "until": Cat(Re("created_at < "), INT),
    "tag": Cat(Re("id IN (SELECT id FROM tags WHERE name = "), QLIT, Re(" AND value IN ("), lst(QLIT), Re(")) ")),
}
ATOM = Un(*ATOMS.values())
CONJ = Un(Cat(ATOM, Star(Cat(Re(" AND "), ATOM))), Re("false"))
SELECT = """
            SELECT id, created_at, kind, pubkey, tags, sig, content FROM events
        """
TAIL = Cat(Re("\n            ORDER BY created_at DESC\n            LIMIT "), z3.Plus(Rng("0", "9")), Re("\n        "))
STATEMENT = Cat(Re(SELECT), Opt_(Cat(Re(" WHERE (\n\t"), CONJ, Star(Cat(Re("\n) OR (\n"), CONJ)), Re(")"))), TAIL)
NAMED_RE.update({"sql_atom": ATOM, "sql_conj": CONJ, "sql_statement": STATEMENT, "hexs": HEXS})

assume_doc("REPL", "str.replace(\"'\", \"''\") returns a string in which every quote is doubled: it lies in ([^']|'')*  (quote-doubling lemma, assumed)")


def _replace_facts(s, a, b, r):
    # the quote-doubling lemma (ASSUMED): s.replace("'", "''") lies in ([^']|'')*
    return [z3.Implies(z3.And(a == z3.StringVal("'"), b == z3.StringVal("''")), z3.InRe(r, SQ))]


REG.replace_facts = _replace_facts

# ---- NostrQuery as seen by the SQL builder (what pydantic + ids_are_hex + check_tags guarantee; see validate units) ------
QUERY = V.Rec("NostrQuery", {
    "ids": V.Opt(V.List(V.Str)), "authors": V.Opt(V.List(V.Str)), "kinds": V.Opt(V.List(V.Int)),
    "since": V.Opt(V.Int), "until": V.Opt(V.Int), "limit": V.Opt(V.Int),
    "tags": V.Opt(V.List(V.Tuple(V.Str, V.Set(V.Str)))),
})
REG.__dict__.setdefault("named_types", {})["Rec_NostrQuery"] = QUERY


def _set_iter(sx, v, st, node):
    return ("opaque", SetElems(v))


class SetElems:
    """iteration over a set value: yields elements of the set (each exactly once is the assumed contract of set iteration)"""

    def __init__(self, v):
        self.v = v

    def next(self, sx, st, k):
        e = sx.fresh(self.v.ty.elem, "elem", st)
        st.assume(z3.Select(self.v.term, e.term))
        return [R(st, e)]


REG.set_iter = _set_iter
REG.classes["SQLSubscription"] = {"log": lambda sx, st, name: LOGGER, "is_postgres": V.Bool, "default_limit": V.Int,
                                  "__frozen__": ("is_postgres", "default_limit")}

QCLASS = ("implies(filter_obj.ids is not None, all_range(0, len(filter_obj.ids), lambda i: matches(filter_obj.ids[i], 'hexs'))) and "
          "implies(filter_obj.authors is not None, all_range(0, len(filter_obj.authors), lambda i: matches(filter_obj.authors[i], 'hexs')))")

evaluate_filter = REG.unit(Unit(
    P, "Subscription.evaluate_filter",
    Contract("Subscription.evaluate_filter", {"self": V.ObjT("SQLSubscription"), "filter_obj": QUERY, "subwhere": V.List(V.Str)},
             # established by NostrQuery.model_validate: ids/authors went through ids_are_hex
             requires=[("ids-and-authors-are-hex", QCLASS)],
             # (that every element of subwhere is an atom follows from the append-time obligations by induction over the appends;
             #  that induction is not mechanised -- see DESIGN.md, C01)
             ensures=[("returns-the-filter", "result == filter_obj")],
             raises={"ValueError": True}, modifies=["subwhere"], returns=QUERY),
    props=["C01"],
    canaries=[("appends-nothing", "len(subwhere) == len(old(subwhere))")],
))
ATOMS_INV = ("atoms", "all_range(0, len(subwhere), lambda i: matches(subwhere[i], 'sql_atom'))")
evaluate_filter.loops = {
    1: LoopSpec("ids", index="_a", invariants=[("exact-are-hex-literals", "all_range(0, len(exact), lambda i: matches(exact[i], 'xhex'))")]),
    2: LoopSpec("authors", index="_b", invariants=[
        ("exact-are-hex-literals", "forall(lambda x: implies(x in exact, matches(x, 'xhex')), x=Str)"),
        ("hexexact-are-quoted-hex", "forall(lambda x: implies(x in hexexact, matches(x, 'qhex')), x=Str)")]),
    3: LoopSpec("tags", index="_c", invariants=[]),
    4: LoopSpec("values", index="_d", invariants=[("literals-so-far-are-quoted", "all_range(0, len(pstr), lambda i: matches(pstr[i], 'qlit'))")]),
}
NAMED_RE.update({"xhex": XHEX, "qlit": QLIT, "qhex": QHEX})
evaluate_filter.local_types = {"exact": {"emptylist": V.List(V.Str), "emptyset": V.Set(V.Str)}, "hexexact": V.Set(V.Str), "pstr": V.List(V.Str)}
evaluate_filter.elem_classes = {"exact": ("xhex", XHEX), "hexexact": ("qhex", QHEX), "pstr": ("qlit", QLIT)}
evaluate_filter.stmt_hints = [
    ("subwhere.append(", {"_appended": "@arg0"}, [], [("appended-fragment-is-an-atom", "matches(_appended, 'sql_atom')")]),
]
