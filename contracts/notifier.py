"""
Sidecar contracts for nostr_relay/notifier.py (C20: cross-worker notification).
Ghost byte streams: what each peer receives is a concatenation of whole 32-byte ids; the client looks up exactly the ids
announced, once each, and fans each loaded event out locally once.
"""
import z3
from pyvc import vals as V
from pyvc.vals import Val, Ref, Func, Conc, NONE
from pyvc.sx import R, Exc, LoopSpec, fresh_name, Unsupported
from .common import REG, Contract, Unit, SpecFunc, LOGGER, EVENT, assume_doc, asyncio_attr

P = "nostr_relay/notifier.py"
assume_doc("TCP", "asyncio streams: StreamReader.readexactly(n) returns exactly n bytes of the stream, in order, or raises IncompleteReadError at EOF; "
                  "read(n) returns between 1 and n bytes or b'' at EOF; writer.write appends to the peer's stream; drain() may raise ConnectionError")
PEER = V.Opaque("Peer")
CHUNKS = V.List(V.Bytes)


@asyncio_attr("IncompleteReadError")
def _aio_ire(sx, st, node):
    return [R(st, Conc("IncompleteReadError"))]


@asyncio_attr("exceptions")
def _aio_exceptions(sx, st, node):
    class Ex:
        def __pyvc_getattr__(self, sx2, attr, s, n):
            return [R(s, Conc(attr))]
    return [R(st, Conc(Ex()))]


class Reader:
    """StreamReader of one connection"""

    def __pyvc_getattr__(self, sx, attr, st, node):
        if attr == "readexactly":
            def rx(sx2, a, k, s, n):
                nbytes = a[0].term
                s2, s3 = s.fork(), s.fork()
                d = sx2.fresh(V.Bytes, "chunk", s)
                s.assume(z3.Length(d.term) == nbytes)
                log = s.ghost["consumed"]
                t = log.ty
                s.ghost["consumed"] = Val(t, t.mk(z3.Store(t.arr(log.term), t.n(log.term), d.term), t.n(log.term) + 1))
                s.ghost["current_chunk"] = d
                return [R(s, d), R(s2, None, Exc("IncompleteReadError")), R(s3, None, Exc("CancelledError"))]
            return [R(st, Func(rx, "reader.readexactly"))]
        if attr == "read":
            def rd(sx2, a, k, s, n):
                nbytes = a[0].term
                s3 = s.fork()
                d = sx2.fresh(V.Bytes, "chunk", s)
                s.assume(z3.Length(d.term) <= nbytes)   # possibly a partial id, or b'' at EOF
                log = s.ghost["consumed"]
                t = log.ty
                s.ghost["consumed"] = Val(t, z3.If(z3.Length(d.term) > 0, t.mk(z3.Store(t.arr(log.term), t.n(log.term), d.term), t.n(log.term) + 1), log.term))
                s.ghost["current_chunk"] = d
                return [R(s, d), R(s3, None, Exc("CancelledError"))]
            return [R(st, Func(rd, "reader.read"))]
        raise Unsupported("reader.%s" % attr, node)


def _peer_method(sx, obj, attr, args, kwargs, st, node):
    if attr == "write":
        w = st.ghost["written"]
        c = st.ghost["writes_to"]
        d = sx.deref(args[0], st)
        # what is written to a peer is exactly the chunk just read, whole
        sx.oblige(st, "%s/relay:writes-the-chunk-just-read" % sx.cur_func, sx.eq(d, st.ghost["current_chunk"], st), "typestate", node)
        st.ghost["writes_to"] = Val(c.ty, z3.Store(c.term, obj.term, z3.Select(c.term, obj.term) + 1))
        return [R(st, NONE)]
    if attr == "drain":
        return [R(st, NONE), R(st.fork(), None, Exc("ConnectionError", exact=False))]
    if attr == "close":
        return [R(st, NONE)]
    if attr == "get_extra_info":
        return [R(st, sx.fresh(V.Opaque("Addr"), "addr", st))]
    return None


REG.hooks[("method", repr(PEER))] = _peer_method
CONNS = V.Dict(V.Opaque("Addr"), PEER)
REG.classes["NotifyServer"] = {"log": lambda sx, st, name: LOGGER, "connections": CONNS, "port": V.Int}


def _dict_values_iter(sx, args, kwargs, st, node):
    return None


class ConnValues:
    """self.connections.values(): the registered peer writers (each once: assumed contract of dict iteration)"""

    def __init__(self, dref):
        self.dref = dref

    def __pyvc_iter__(self, sx, st, node):
        return ("opaque", self)

    def next(self, sx, st, k):
        d = st.getcell(self.dref.cell)
        key = sx.fresh(V.Opaque("Addr"), "peer_addr", st)
        st.assume(z3.Select(CONNS.dom(d.term), key.term))
        p = Val(PEER, z3.Select(CONNS.map(d.term), key.term))
        st.ghost["iter_peer"] = p
        return [R(st, p)]


def _conn_method(sx, obj, attr, args, kwargs, st, node):
    return None


def ghost_server(sx, st):
    st.ghost["consumed"] = Val(CHUNKS, CHUNKS.empty())
    st.ghost["writes_to"] = sx.fresh(V.Map(PEER, V.Int), "writes0", st)
    st.ghost["written"] = V.mk_int(0)
    st.ghost["current_chunk"] = V.mk_bytes(b"")
    st.ghost["iter_peer"] = sx.fresh(PEER, "no_peer", st)


def setup_server(sx, st, params):
    st.env["reader"] = Conc(Reader())


def _values_hook(sx, ref, attr, args, kwargs, st, node):
    if attr == "values":
        return [R(st, Conc(ConnValues(ref)))]
    return None


# dict.values() on the heap Dict of connections
_old_value_method = REG.value_method


def _value_method(sx, obj, attr, args, kwargs, st, node):
    if isinstance(obj, Ref) and isinstance(obj.ty, V.Dict) and obj.ty == CONNS and attr == "values":
        return [R(st, Conc(ConnValues(obj)))]
    return _old_value_method(sx, obj, attr, args, kwargs, st, node)


REG.value_method = _value_method

handle_notify = REG.unit(Unit(
    P, "NotifyServer.handle_notify",
    Contract("NotifyServer.handle_notify", {"self": V.ObjT("NotifyServer"), "writer": PEER, "p0": PEER},
             ensures=[("origin-unregistered-at-exit", "True")],
             raises={"KeyError": True}),
    loops={
        "True": LoopSpec("chunks", index="_n", invariants=[
            # framing: everything consumed from the origin so far is a sequence of whole 32-byte ids
            ("only-whole-ids-consumed", "all_range(0, len(ghost('consumed')), lambda i: len(ghost('consumed')[i]) == 32)"),
            # no echo: nothing is ever written back to the origin
            ("never-written-to-origin", "ghost('writes_to')[writer] == old(ghost('writes_to'))[writer]"),
        ]),
        "self.connections.values()": LoopSpec("peers", index="_p", invariants=[
            ("only-whole-ids-consumed", "all_range(0, len(ghost('consumed')), lambda i: len(ghost('consumed')[i]) == 32)"),
            ("never-written-to-origin", "ghost('writes_to')[writer] == old(ghost('writes_to'))[writer]"),
            ("chunk-is-last-consumed", "len(ghost('consumed')) >= 1 and ghost('consumed')[len(ghost('consumed')) - 1] == data and ghost('current_chunk') == data"),
        ], iter_post=[
            # each registered peer other than the origin gets the chunk exactly once per chunk; the origin never
            ("peer-gets-chunk-once-unless-origin",
             "implies(_exit != 'raise', ghost('writes_to')[peer] == head_writes_to[peer] + (0 if peer == writer else 1))"),
            ("nobody-else-written", "forall(lambda q: implies(q != peer, ghost('writes_to')[q] == head_writes_to[q]), q=Opaque('Peer'))"),
        ]),
    },
    props=["C20"], ghost_init=ghost_server, setup=setup_server,
    canaries=[("never-returns", "False")],
))
handle_notify.contract.ghost_params = ("p0",)
handle_notify.param_defaults = {"reader": lambda sx, st: Conc(Reader())}
handle_notify.stmt_hints = [
    ("data = await reader.", {}, [], [("reads-whole-ids", "len(data) == 32")]),
]


def _server_ghost_havoc(sx, body, st):
    for g in ("consumed", "writes_to", "current_chunk", "iter_peer"):
        st.ghost[g] = sx.fresh(st.ghost[g].ty, "g_" + g, st)


handle_notify.ghost_havoc = _server_ghost_havoc


# ---- NotifyClient ----------------------------------------------------------------------------------------
REG.classes["NotifyClient"] = {"log": lambda sx, st, name: LOGGER, "storage": V.ObjT("NotifierStorage"), "port": V.Int, "address": V.Str,
                               "writer": V.Opt(PEER)}
REG.classes["NotifierStorage"] = {}


@asyncio_attr("open_connection")
def _aio_open(sx, st, node):
    def oc(sx2, a, k, s, n):
        w = sx2.fresh(PEER, "server_writer", s)
        return [R(s, Conc((Conc(Reader()), w))), R(s.fork(), None, Exc("OSError", exact=False))]
    return [R(st, Func(oc, "asyncio.open_connection"))]


@REG.method("NotifierStorage", "get_event", frame=[])
def _get_event(sx, args, kwargs, st, node):
    """storage.get_event(hex id) (own contract): the stored event with that id, or None"""
    hexid = sx.deref(args[1], st)
    # looked up: exactly the id just read, whole
    from .common import REG as _R
    bh = _R.ufun("bytes_hex", [z3.StringSort()], z3.StringSort())
    sx.oblige(st, "%s/lookup:exactly-the-id-just-read" % sx.cur_func,
              z3.And(hexid.term == bh(st.ghost["current_chunk"].term), z3.Length(st.ghost["current_chunk"].term) == 32), "typestate", node)
    st.ghost["n_lookups"] = Val(V.Int, st.ghost["n_lookups"].term + 1)
    ev = sx.fresh(V.Opt(EVENT), "found", st)
    st.ghost["found_event"] = ev
    return [R(st, ev), R(st.fork(), None, Exc("EngineError", exact=False))]


@REG.method("NotifierStorage", "notify_all_connected", frame=[])
def _nac(sx, args, kwargs, st, node):
    ev = st.ghost["found_event"]
    t = ev.ty
    sx.oblige(st, "%s/fanout:the-event-just-loaded" % sx.cur_func,
              z3.And(z3.Not(t.is_none(ev.term)), sx.eq(args[1], Val(t.inner, t.get(ev.term)), st)), "typestate", node)
    st.ghost["n_fanouts"] = Val(V.Int, st.ghost["n_fanouts"].term + 1)
    return [R(st, NONE)]


def ghost_client(sx, st):
    ghost_server(sx, st)
    st.ghost["n_lookups"] = V.mk_int(0)
    st.ghost["n_fanouts"] = V.mk_int(0)
    st.ghost["found_event"] = sx.fresh(V.Opt(EVENT), "none_found", st)


def _client_havoc(sx, body, st):
    for g in ("consumed", "current_chunk", "n_lookups", "n_fanouts", "found_event"):
        st.ghost[g] = sx.fresh(st.ghost[g].ty, "g_" + g, st)


connect = REG.unit(Unit(
    P, "NotifyClient.connect",
    Contract("NotifyClient.connect", {"self": V.ObjT("NotifyClient")}, ensures=[("ends-quietly", "True")], raises={"OSError+": True}),
    loops={"True": LoopSpec("ids", index="_n", invariants=[
        ("only-whole-ids-consumed", "all_range(0, len(ghost('consumed')), lambda i: len(ghost('consumed')[i]) == 32)"),
    ], iter_post=[
        # one announced id -> one lookup -> at most one local fan-out (exactly one if the event was found)
        ("one-lookup-per-id", "ghost('n_lookups') <= head_n_lookups + 1 and ghost('n_lookups') - head_n_lookups <= len(ghost('consumed')) - len(head_consumed)"),
        ("one-fanout-per-found-event", "ghost('n_fanouts') <= head_n_fanouts + 1 and implies(_exit == 'normal' and ghost('n_lookups') == head_n_lookups + 1, "
                                       "ghost('n_fanouts') == head_n_fanouts + (1 if ghost('found_event') is not None else 0))"),
    ])},
    props=["C20"], ghost_init=ghost_client, canaries=[("never-returns", "False")],
))
connect.ghost_havoc = _client_havoc
connect.stmt_hints = [("data = await reader.", {}, [], [("reads-whole-ids", "len(data) == 32")])]

# notify(): announces exactly the 32 id bytes of the event
REG.unit(Unit(
    P, "NotifyClient.notify",
    Contract("NotifyClient.notify", {"self": V.ObjT("NotifyClient"), "event": EVENT},
             requires=[("connected", "self.writer is not None"), ("event-is-canonical", "matches(event.id, 'hex') and len(event.id) == 64")],
             ensures=[("announced-once", "ghost('writes_to')[self.writer] == old(ghost('writes_to'))[self.writer] + 1")],
             raises={"ConnectionError+": True}),
    props=["C20"], ghost_init=ghost_client,
    setup=lambda sx, st, params: st.ghost.__setitem__("current_chunk", Val(V.Bytes, __import__("contracts.common", fromlist=["FROMHEX"]).FROMHEX(EVENT.get(params["event"].term, "id")))),
    canaries=[("never-announces", "ghost('writes_to')[self.writer] == old(ghost('writes_to'))[self.writer]")],
))
from . import util as _U  # noqa: E402  (named regular languages)


# ---------------------------------------------------------------------------------------------------- NotifyServer.run (C20)
# One hub per machine: the FIRST worker that binds the port relays ids between all workers; every other worker's attempt fails with
# OSError and it becomes a pure client.  That only works while the listener is bound EXCLUSIVELY -- with SO_REUSEPORT several workers
# would each run their own hub and an id would reach only the workers connected to the same one.
from .common import asyncio_attr  # noqa: E402


class _ServerCM:
    def enter(self, sx, st, node):
        return [R(st, Conc(self))]

    def exit(self, sx, st, exc, node):
        return [R(st, False)]

    def __pyvc_getattr__(self, sx, attr, st, node):
        if attr == "serve_forever":
            return [R(st, Func(lambda sx2, a, k, s, n: [R(s, NONE), R(s.fork(), None, Exc("CancelledError"))], "server.serve_forever"))]
        raise Unsupported("server.%s" % attr, node)


REG.ctx_managers.append((lambda m, st: isinstance(m, Conc) and isinstance(m.v, _ServerCM), lambda m: m.v))


@asyncio_attr("start_server")
def _aio_start_server(sx, st, node):
    def start(sx2, a, k, s, n):
        """asyncio.start_server(cb, host, port, **kw) (ASSUMED): binds and listens, OSError if the address is in use"""
        shared = None
        for kw in ("reuse_port",):
            if kw in k:
                v = k[kw]
                shared = sx2.truthy(sx2.lift(v) if isinstance(v, Conc) else v, s)
        sx2.oblige(s, "%s/listen:exclusive-bind-one-hub-per-port" % sx2.cur_func, z3.Not(shared) if shared is not None else z3.BoolVal(True), "typestate", n)
        s.ghost["listeners"] = Val(V.Int, s.ghost["listeners"].term + 1)
        return [R(s, Conc(_ServerCM())), R(s.fork(), None, Exc("OSError"))]
    return [R(st, Func(start, "asyncio.start_server"))]


def ghost_server_run(sx, st):
    st.ghost["listeners"] = V.mk_int(0)


REG.unit(Unit(
    P, "NotifyServer.run",
    Contract("NotifyServer.run", {"self": V.ObjT("NotifyServer")},
             ensures=[("at-most-one-listener", "ghost('listeners') <= 1")],
             raises={"CancelledError": True}),
    props=["C20"], ghost_init=ghost_server_run,
    canaries=[("never-returns", "False")],
))
