"""
Sidecar contracts for nostr_relay/web.py: validate_message, send_subscriptions, start_client.
Effect (typestate) profile: the contracts speak about ghost state -- counters of frames sent by kind, the outcome of
the storage/authenticator call made for the current message, the connection's challenge, cleanup flags.

Properties served: C06 (one OK per EVENT, OK flag = storage result), C13 (REQ answered or refused with NOTICE),
C15 (identity changes only through authenticate() with this connection's challenge), C19 (no exception escapes,
cleanup on every exit), C18 (limiter consulted before every command).
"""
import z3
from pyvc import vals as V
from pyvc.vals import Val, Ref, Func, Conc, NONE
from pyvc.sx import R, Out, Exc, LoopSpec, fresh_name, Unsupported, HetList
from pyvc import builtins as B
from .common import REG, Contract, Unit, SpecFunc, LOGGER, EVENT, clock_read, assume_doc
from .auth import TOKEN

P = "nostr_relay/web.py"
J = B.J

assume_doc("WS", "websocket callables: ws_recv() returns a text frame or raises WebSocketDisconnected/ConnectionClosedError/ConnectionClosedOK/"
                 "TimeoutError or another Exception; ws_send(text) sends one frame or raises one of those; ws_close never raises")
assume_doc("JSON", "json_loads returns an arbitrary JSON value or raises JSONDecodeError; json_dumps(list) returns the text of that JSON array "
                   "(rapidjson; RFC 8259) and never raises for str/bool/None/number items")
assume_doc("A4", "one coroutine step between two awaits is atomic; task scheduling and cancellation delivered at an arbitrary await are not modelled")

# ------------------------------------------------------------------------------- validate_message
VALID = ("isinstance(message, list) and len(message) >= 2 and "
         "(message[0] == 'EVENT' or message[0] == 'REQ' or message[0] == 'CLOSE' or message[0] == 'AUTH')")
REG.unit(Unit(
    P, "validate_message",
    Contract("validate_message", {"message": V.Json},
             ensures=[("exactly-the-four-commands-with-an-argument", "result == (%s)" % VALID)],
             returns=V.Bool, pure=True),
    props=["C19", "C13", "C06"], canaries=[("accepts-everything", "result")],
))

# ------------------------------------------------------------------------------- ghost vocabulary
COUNTERS = ["n_ok", "n_notice", "n_auth", "n_other", "n_recv", "n_parsed", "n_closed"]


def ghost_init(sx, st):
    for c in COUNTERS:
        st.ghost[c] = V.mk_int(0)
    st.ghost["last_ok_flag"] = V.mk_bool(False)
    st.ghost["last_ok_id"] = V.mk_str("")
    st.ghost["last_ok_reason_empty"] = V.mk_bool(True)
    # outcome of the storage/authenticator call made while handling the current message:
    #   0 = none yet, 1 = returned normally, 2 = raised
    for g in ("sub_calls", "unsub_calls", "add_calls", "auth_calls", "limiter_calls"):
        st.ghost[g] = V.mk_int(0)
    st.ghost["add_outcome"] = V.mk_int(0)
    st.ghost["add_result"] = V.mk_bool(False)
    st.ghost["add_id"] = V.mk_str("")
    st.ghost["sub_outcome"] = V.mk_int(0)
    st.ghost["sub_raised_refusal"] = V.mk_bool(False)
    st.ghost["auth_outcome"] = V.mk_int(0)
    st.ghost["auth_challenge_ok"] = V.mk_bool(True)
    st.ghost["limited_now"] = V.mk_bool(False)
    st.ghost["unsub_all_calls"] = V.mk_int(0)
    st.ghost["cleanup_calls"] = V.mk_int(0)
    st.ghost["task_created"] = V.mk_bool(False)
    st.ghost["task_cancelled"] = V.mk_bool(False)
    st.ghost["task_awaited"] = V.mk_bool(False)
    st.ghost["challenge_reissued"] = V.mk_bool(False)
    st.ghost["clock"] = sx.fresh(V.Real, "clock0", st)


def bump(st, g, by=1):
    st.ghost[g] = Val(V.Int, st.ghost[g].term + by)


def ghost_havoc(sx, body, st):
    for g, v in list(st.ghost.items()):
        if g.startswith("__") or not isinstance(v, Val) or v.term is None:
            continue
        if g in ("challenge_issued",):
            continue
        st.ghost[g] = sx.fresh(v.ty, "g_" + g, st)
        if isinstance(v.ty, V._Int):
            st.assume(st.ghost[g].term >= v.term if g.startswith("n_") or g.endswith("_calls") else z3.BoolVal(True))


NET_ERRS = ("WebSocketDisconnected", "ConnectionClosedError", "ConnectionClosedOK")
# an unspecified failure of a dependency is not one of the relay's own control-flow exceptions
NOT_OURS = ("StorageError", "AuthenticationError", "JSONDecodeError", "TimeoutError", "CancelledError") + NET_ERRS


def other_exc():
    return Exc("Exception", exact=False, excluding=NOT_OURS)


def _ws_send(sx, args, kwargs, st, node):
    """ws_send (ASSUMED, see WS): one frame sent, or the connection is gone / another error"""
    outs = []
    for e in NET_ERRS:
        outs.append(R(st.fork(), None, Exc(e)))
    outs.append(R(st.fork(), None, other_exc()))
    fr = args[0].aux.get("frame") if getattr(args[0], "aux", None) else None
    if fr is None:
        bump(st, "n_other")
    else:
        kind, items = fr
        if kind == "OK":
            bump(st, "n_ok")
            st.ghost["last_ok_id"] = sx.coerce_str(items[1], st)
            st.ghost["last_ok_flag"] = Val(V.Bool, sx.truthy(items[2], st))
            st.ghost["last_ok_reason_empty"] = Val(V.Bool, z3.Not(sx.truthy(items[3], st)))
        elif kind == "NOTICE":
            bump(st, "n_notice")
        elif kind == "AUTH":
            bump(st, "n_auth")
        else:
            bump(st, "n_other")
    outs.append(R(st, NONE))
    return outs


def _ws_recv(sx, args, kwargs, st, node):
    outs = []
    for e in NET_ERRS + ("TimeoutError",):
        outs.append(R(st.fork(), None, Exc(e)))
    outs.append(R(st.fork(), None, other_exc()))
    bump(st, "n_recv")
    outs.append(R(st, sx.fresh(V.Str, "frame_text", st)))
    return outs


def _ws_close(sx, args, kwargs, st, node):
    bump(st, "n_closed")
    return [R(st, NONE)]


@REG.model("json_loads")
def _json_loads(sx, args, kwargs, st, node):
    s2 = st.fork()
    bump(st, "n_parsed")
    v = B.fresh_json(sx, st, "msg")
    return [R(st, v), R(s2, None, Exc("JSONDecodeError"))]


@REG.model("json_dumps")
def _json_dumps(sx, args, kwargs, st, node):
    a = args[0]
    r = sx.fresh(V.Str, "frame", st)
    if isinstance(a, Conc) and isinstance(a.v, HetList) and isinstance(a.v.items[0], Val):
        k = z3.simplify(sx.lift(a.v.items[0]).term if isinstance(a.v.items[0], Conc) else a.v.items[0].term)
        if z3.is_string_value(k):
            r.aux = {"frame": (k.as_string(), a.v.items)}
    elif isinstance(a, Ref):
        c = st.getcell(a.cell)
        if isinstance(c, Val) and isinstance(c.ty, V.List) and isinstance(c.ty.elem, V._Str):
            k = z3.simplify(c.ty.at(c.term, 0))
            if z3.is_string_value(k):
                n = z3.simplify(c.ty.n(c.term))
                items = [Val(V.Str, c.ty.at(c.term, i)) for i in range(n.as_long())] if z3.is_int_value(n) else [Val(V.Str, k)]
                r.aux = {"frame": (k.as_string(), items)}
    return [R(st, r)]


class TimeoutCM:
    def enter(self, sx, st, node):
        return [R(st, NONE)]

    def exit(self, sx, st, exc, node):
        return [R(st, False)]


@REG.model("timeout")
def _timeout(sx, args, kwargs, st, node):
    return [R(st, Conc(TimeoutCM()))]


REG.ctx_managers.append((lambda m, st: isinstance(m, Conc) and isinstance(m.v, TimeoutCM), lambda m: m.v))


from .common import asyncio_attr, TASK  # noqa: E402


@asyncio_attr("Queue")
def _aio_queue(sx, st, node):
    return [R(st, Func(lambda sx2, a, k, s, n: [R(s, Conc(QueueObj()))], "asyncio.Queue"))]


class QueueObj:
    def __pyvc_getattr__(self, sx, attr, st, node):
        if attr == "get":
            return [R(st, Func(lambda sx2, a, k, s, n: [R(s, NONE)], "queue.get"))]
        raise Unsupported("queue.%s" % attr, node)


@REG.model("send_subscriptions")
def _send_subscriptions_call(sx, args, kwargs, st, node):
    return [R(st, Conc("coroutine:send_subscriptions"))]


@REG.model("ClientID")
def _client_id(sx, args, kwargs, st, node):
    return [R(st, Conc(ClientIdObj()))]


class ClientIdObj:
    pass


# ------------------------------------------------------------------------------- storage / authenticator / limiter as seen from web.py
# configuration attributes do not change while a connection is served (assumption listed in evidence)
REG.classes["WebStorage"] = {"authenticator": V.ObjT("WebAuthenticator"), "__frozen__": ("authenticator",)}
REG.classes["WebAuthenticator"] = {"is_enabled": V.Bool, "__frozen__": ("is_enabled",)}
REG.classes["WebLimiter"] = {}


def _effect_guard(st):
    """effects of a command must come after the limiter was consulted for this message (C18)"""
    pass


@REG.method("WebStorage", "subscribe", frame=None)
def _subscribe(sx, args, kwargs, st, node):
    """storage.subscribe (contract proved on BaseStorage.subscribe, C13): returns, or refuses with StorageError /
    AuthenticationError, or fails with another exception (e.g. TypeError on an unhashable filter value)"""
    bump(st, "sub_calls")
    outs = []
    for e in ("StorageError", "AuthenticationError"):
        s2 = st.fork()
        s2.ghost["sub_outcome"] = V.mk_int(2)
        s2.ghost["sub_raised_refusal"] = V.mk_bool(True)
        outs.append(R(s2, None, Exc(e)))
    s3 = st.fork()
    s3.ghost["sub_outcome"] = V.mk_int(2)
    outs.append(R(s3, None, other_exc()))
    st.ghost["sub_outcome"] = V.mk_int(1)
    outs.append(R(st, NONE))
    return outs


@REG.method("WebStorage", "unsubscribe", frame=None)
def _unsubscribe(sx, args, kwargs, st, node):
    """storage.unsubscribe never raises (KeyError is caught inside; proved on BaseStorage.unsubscribe)"""
    if len(args) >= 3 or "sub_id" in kwargs:
        bump(st, "unsub_calls")
    else:
        bump(st, "unsub_all_calls")
    return [R(st, NONE)]


@REG.method("WebStorage", "add_event", frame=None)
def _add_event(sx, args, kwargs, st, node):
    bump(st, "add_calls")
    outs = []
    for e in ("StorageError", "AuthenticationError"):
        s2 = st.fork()
        s2.ghost["add_outcome"] = V.mk_int(2)
        outs.append(R(s2, None, Exc(e, sx.fresh(V.Str, "reason", s2))))
    s3 = st.fork()
    s3.ghost["add_outcome"] = V.mk_int(2)
    outs.append(R(s3, None, other_exc()))
    ev = sx.fresh(EVENT, "stored_event", st)
    res = sx.fresh(V.Bool, "changed", st)
    st.ghost["add_outcome"] = V.mk_int(1)
    st.ghost["add_result"] = res
    st.ghost["add_id"] = Val(V.Str, EVENT.get(ev.term, "id"))
    outs.append(R(st, Conc((ev, res))))
    return outs


@REG.method("WebAuthenticator", "get_challenge", frame=[])
def _get_challenge(sx, args, kwargs, st, node):
    c = sx.fresh(V.Str, "challenge", st)
    if "challenge_issued" in st.ghost:
        st.ghost["challenge_reissued"] = V.mk_bool(True)
    st.ghost["challenge_issued"] = c
    return [R(st, c)]


@REG.method("WebAuthenticator", "should_throttle", frame=[])
def _should_throttle(sx, args, kwargs, st, node):
    r = sx.fresh(V.Real, "throttle", st)
    st.assume(r.term >= 0)
    return [R(st, r), R(st.fork(), None, other_exc())]


@REG.method("WebAuthenticator", "authenticate", frame=None)
def _authenticate(sx, args, kwargs, st, node):
    """authenticator.authenticate (contract proved on Authenticator.authenticate/check_auth_event, C15): returns a
    token only for a correct answer to the challenge it is given"""
    bump(st, "auth_calls")
    ch = kwargs.get("challenge", args[2] if len(args) > 2 else None)
    issued = st.ghost.get("challenge_issued")
    ok = z3.BoolVal(False) if (ch is None or issued is None) else sx.eq(ch, issued, st)
    st.ghost["auth_challenge_ok"] = Val(V.Bool, z3.And(st.ghost["auth_challenge_ok"].term, ok))
    outs = []
    s2 = st.fork()
    s2.ghost["auth_outcome"] = V.mk_int(2)
    outs.append(R(s2, None, Exc("AuthenticationError", sx.fresh(V.Str, "reason", s2))))
    s3 = st.fork()
    s3.ghost["auth_outcome"] = V.mk_int(2)
    outs.append(R(s3, None, other_exc()))
    tok = sx.fresh(TOKEN, "token", st)
    st.assume(TOKEN.get(tok.term, "nonempty"))
    st.ghost["auth_outcome"] = V.mk_int(1)
    st.ghost["auth_token_new"] = tok
    outs.append(R(st, tok))
    return outs


@REG.method("WebLimiter", "is_limited", frame=None)
def _is_limited(sx, args, kwargs, st, node):
    bump(st, "limiter_calls")
    r = sx.fresh(V.Bool, "limited", st)
    st.ghost["limited_now"] = r
    return [R(st, r), R(st.fork(), None, other_exc())]


@REG.method("WebLimiter", "cleanup", frame=None)
def _cleanup(sx, args, kwargs, st, node):
    bump(st, "cleanup_calls")
    return [R(st, NONE)]


def _await_hook(sx, node, st):
    return None


# ------------------------------------------------------------------------------- start_client
def setup_start_client(sx, st, params):
    st.env["ws_send"] = Func(_ws_send, "ws_send")
    st.env["ws_recv"] = Func(_ws_recv, "ws_recv")
    st.env["ws_close"] = Func(_ws_close, "ws_close")
    st.env["log"] = LOGGER
    st.env["auth_token0"] = NONE


IS_CMD = "(ghost('n_parsed') == head_n_parsed + 1 and (%s) and message[0] == '%%s')" % VALID
EVENT_IT = IS_CMD % "EVENT"
REQ_IT = IS_CMD % "REQ"
AUTH_IT = IS_CMD % "AUTH"
DONE = "(_exit == 'normal' or _exit == 'continue')"
NOT_LIMITED = "not ghost('limited_now')"

ITER_POST = [
    # C06: exactly one OK per EVENT message (unless the connection is being closed)
    ("one-ok-per-event", "implies(%s and %s, ghost('n_ok') == head_n_ok + 1 and ghost('n_notice') == head_n_notice)" % (EVENT_IT, DONE)),
    ("at-most-one-ok-per-event-when-closing", "implies(%s, ghost('n_ok') <= head_n_ok + 1)" % EVENT_IT),
    # C06: the OK frame reports what storage did
    ("ok-flag-is-storage-result",
     "implies(%s and %s and ghost('add_calls') == head_add_calls + 1 and ghost('add_outcome') == 1, "
     "ghost('last_ok_flag') == ghost('add_result') and ghost('last_ok_id') == ghost('add_id'))" % (EVENT_IT, DONE)),
    ("ok-false-when-storage-refuses",
     "implies(%s and %s and ghost('add_calls') == head_add_calls + 1 and ghost('add_outcome') == 2, not ghost('last_ok_flag'))" % (EVENT_IT, DONE)),
    ("ok-false-when-rate-limited",
     "implies(%s and %s and ghost('add_calls') == head_add_calls, not ghost('last_ok_flag'))" % (EVENT_IT, DONE)),
    ("event-stored-at-most-once", "ghost('add_calls') <= head_add_calls + 1"),
    # C06: the OK of a refused event names that event or nothing -- never another (e.g. an earlier, stored) event
    ("refused-ok-names-no-other-event",
     "implies(%s and ghost('n_ok') == head_n_ok + 1 and ghost('add_calls') == head_add_calls + 1 and ghost('add_outcome') == 2, "
     "ghost('last_ok_id') == '' or ghost('last_ok_id') == jstr(jget(jitem(message, 1), 'id')))" % EVENT_IT),
    # only EVENT messages are answered with OK, only AUTH setup sends AUTH frames
    ("no-ok-without-event", "implies(not (%s), ghost('n_ok') == head_n_ok)" % EVENT_IT),
    ("no-auth-frame-in-loop", "ghost('n_auth') == head_n_auth"),
    # C13: a refused REQ is answered with exactly one NOTICE; an accepted one with none (EOSE comes from the query task)
    ("refused-req-gets-one-notice",
     "implies(%s and %s and ghost('sub_calls') == head_sub_calls + 1 and ghost('sub_outcome') == 2, ghost('n_notice') == head_n_notice + 1)" % (REQ_IT, DONE)),
    ("accepted-req-gets-no-notice",
     "implies(%s and ghost('sub_calls') == head_sub_calls + 1 and ghost('sub_outcome') == 1, ghost('n_notice') == head_n_notice)" % REQ_IT),
    ("req-reaches-storage-unless-limited",
     "implies(%s and %s, ghost('sub_calls') == head_sub_calls + 1 or (ghost('limiter_calls') == head_limiter_calls + 1 and ghost('n_notice') == head_n_notice + 1))" % (REQ_IT, DONE)),
    ("subscribe-only-for-req", "implies(not (%s), ghost('sub_calls') == head_sub_calls)" % REQ_IT),
    # C13: whatever subscribe() queued for this REQ (stored events, the EOSE sentinel) needs the sender task to reach the client:
    # once a REQ was accepted by storage the task exists, whether or not a subscription got registered
    ("accepted-req-has-a-sender",
     "implies(%s and %s and ghost('sub_calls') == head_sub_calls + 1 and ghost('sub_outcome') == 1, ghost('task_created'))" % (REQ_IT, DONE)),
    # C15: the identity changes only when authenticate() returned, and then to exactly its token
    ("identity-unchanged-unless-authenticated",
     "implies(not (ghost('auth_calls') == head_auth_calls + 1 and ghost('auth_outcome') == 1), auth_token == head_auth_token)"),
    ("authenticate-only-for-auth", "implies(not (%s), ghost('auth_calls') == head_auth_calls)" % AUTH_IT),
    ("authenticate-gets-this-connections-challenge", "ghost('auth_challenge_ok')"),
    # C18: the limiter is consulted before the command acts
    ("limiter-before-effects",
     "implies(ghost('sub_calls') + ghost('add_calls') + ghost('auth_calls') + ghost('unsub_calls') > "
     "head_sub_calls + head_add_calls + head_auth_calls + head_unsub_calls, ghost('limiter_calls') == head_limiter_calls + 1 and not ghost('limited_now'))"),
    # C19: the loop only ends by closing or because the peer is gone; nothing is closed while the loop goes on
    ("no-close-while-continuing", "implies(%s, ghost('n_closed') == head_n_closed)" % DONE),
]

start_client = REG.unit(Unit(
    P, "start_client",
    Contract("start_client",
             {"storage": V.ObjT("WebStorage"), "message_timeout": V.Int, "rate_limiter": V.ObjT("WebLimiter"),
              "origin": V.Str, "remote_addr": V.Str},
             ensures=[
                 # C19: cleanup on every exit
                 ("all-subscriptions-dropped", "ghost('unsub_all_calls') == 1"),
                 ("limiter-state-cleaned", "ghost('cleanup_calls') == 1"),
                 ("sender-task-cancelled-and-awaited", "implies(ghost('task_created'), ghost('task_cancelled') and ghost('task_awaited'))"),
                 ("one-challenge-per-connection", "not ghost('challenge_reissued')"),
             ],
             raises={}),  # C19: no exception escapes the connection handler
    loops={"True": LoopSpec("messages", index="_m", iter_post=ITER_POST, invariants=[
        ("challenge-fixed", "ghost('auth_challenge_ok')"),
        ("no-cleanup-yet", "ghost('unsub_all_calls') == 0 and ghost('cleanup_calls') == 0"),
        ("one-challenge", "not ghost('challenge_reissued')"),
        ("task-not-cancelled-yet", "not ghost('task_cancelled') and not ghost('task_awaited')"),
        ("task-created-iff-local-set", "ghost('task_created') == (send_task is not None)"),
    ])},
    props=["C06", "C13", "C15", "C19", "C18", "C03"],
    ghost_init=ghost_init, setup=setup_start_client,
    canaries=[("never-cleans-up", "ghost('unsub_all_calls') == 0")],
))
def _auth_token_local(sx, val, st):
    """the local `auth_token` starts as {} (anonymous) and later holds the dict returned by authenticate()"""
    if isinstance(val, Ref) and isinstance(st.heap.get(val.cell), tuple):
        t = sx.fresh(TOKEN, "anon_token", st)
        st.assume(z3.Not(TOKEN.get(t.term, "nonempty")))
        return t
    return val


start_client.local_types = {"send_task": V.Opt(TASK), "auth_token": _auth_token_local}
start_client.ghost_havoc = ghost_havoc
start_client.loop_locals = {"message": V.Json}
start_client.param_defaults = {
    "ws_send": lambda sx, st: Func(_ws_send, "ws_send"),
    "ws_recv": lambda sx, st: Func(_ws_recv, "ws_recv"),
    "ws_close": lambda sx, st: Func(_ws_close, "ws_close"),
    "log": lambda sx, st: LOGGER,
}

start_client.obligation_props = [
    # C03: an event storage refused (forged, unauthentic) is never acknowledged with OK=true
    ("iter:ok-false-when-storage-refuses", ["C06", "C03"]), ("iter:ok-flag-is-storage-result", ["C06", "C03"]),
    ("iter:one-ok-per-event", ["C06"]), ("iter:at-most-one-ok", ["C06"]), ("iter:ok-", ["C06"]), ("iter:event-stored-at-most-once", ["C06"]),
    ("iter:no-ok-without-event", ["C06"]), ("iter:refused-ok-names-no-other-event", ["C06"]),
    ("iter:refused-req", ["C13"]), ("iter:accepted-req", ["C13"]), ("iter:accepted-req-has-a-sender", ["C13"]), ("iter:req-reaches", ["C13"]), ("iter:subscribe-only-for-req", ["C13"]),
    ("iter:identity-unchanged", ["C15"]), ("iter:authenticate-", ["C15"]), ("inv:challenge-fixed", ["C15"]), ("inv:one-challenge", ["C15"]),
    ("post:one-challenge", ["C15"]),
    ("iter:limiter-before-effects", ["C18"]),
    ("iter:no-close-while-continuing", ["C19"]), ("iter:no-auth-frame-in-loop", ["C19"]), ("exc:", ["C19"]), ("post:", ["C19"]),
    ("inv:", ["C19"]),
]


# ------------------------------------------------------------------------------- send_subscriptions (C04, C13)
from . import util as U  # noqa: E402
from .common import EVENT as _EV  # noqa: E402


def _get_from_storage(sx, args, kwargs, st, node):
    """queue.get (ASSUMED): the next (sub_id, event-or-None) item put by storage -- events come from the store or from
    admission, so they are canonical (is_canonical); or the task is cancelled"""
    s2 = st.fork()
    sid = sx.fresh(V.Str, "q_sub_id", st)
    ev = sx.fresh(V.Opt(_EV), "q_event", st)
    t = V.Opt(_EV)
    e = t.get(ev.term)
    for f in ("id", "pubkey", "sig"):
        st.assume(z3.Implies(z3.Not(t.is_none(ev.term)), z3.InRe(_EV.get(e, f), z3.Star(U.HEX))))
    st.ghost["n_items"] = Val(V.Int, st.ghost["n_items"].term + 1)
    st.ghost["item_sub_id"] = sid
    st.ghost["item_is_eose"] = Val(V.Bool, t.is_none(ev.term))
    return [R(st, Conc((sid, ev))), R(s2, None, Exc("CancelledError"))]


def _ws_send_frames(sx, args, kwargs, st, node):
    outs = []
    for e in NET_ERRS:
        outs.append(R(st.fork(), None, Exc(e)))
    outs.append(R(st.fork(), None, other_exc()))
    msg = sx.deref(args[0], st)
    # C04: every frame handed to the socket is a well-formed EVENT or EOSE frame for the item just taken from the queue
    frame_ok = z3.If(st.ghost["item_is_eose"].term, z3.InRe(msg.term, U.EOSE_FRAME), z3.InRe(msg.term, U.EVENT_FRAME))
    sx.oblige(st, "%s/frame:wellformed-event-or-eose-frame" % sx.cur_func, frame_ok, "typestate", node, props=["C04"])
    enc = REG.ufun("encode_basestring", [z3.StringSort()], z3.StringSort())(st.ghost["item_sub_id"].term)
    carries = z3.Contains(msg.term, enc)
    sx.oblige(st, "%s/frame:carries-the-items-subscription-id" % sx.cur_func, carries, "typestate", node, props=["C04", "C13"])
    st.ghost["n_frames"] = Val(V.Int, st.ghost["n_frames"].term + 1)
    outs.append(R(st, NONE))
    return outs


def ghost_sender(sx, st):
    st.ghost["n_items"] = V.mk_int(0)
    st.ghost["n_frames"] = V.mk_int(0)
    st.ghost["item_sub_id"] = V.mk_str("")
    st.ghost["item_is_eose"] = V.mk_bool(False)


send_subs = REG.unit(Unit(
    P, "send_subscriptions",
    Contract("send_subscriptions", {}, ensures=[("returns-byte-count", "result >= 0")], raises={}, returns=V.Int),
    loops={"True": LoopSpec("items", index="_n", invariants=[("sent-nonneg", "sent >= 0")], iter_post=[
        # one queue item -> at most one frame; exactly one when the iteration completes without an error from the socket
        ("one-frame-per-item", "ghost('n_frames') <= head_n_frames + 1 and ghost('n_items') <= head_n_items + 1 and ghost('n_frames') - head_n_frames <= ghost('n_items') - head_n_items"),
    ])},
    props=["C04", "C13"], ghost_init=ghost_sender,
    canaries=[("never-returns", "False")],
))
send_subs.param_defaults = {
    "get_from_storage": lambda sx, st: Func(_get_from_storage, "queue.get"),
    "ws_send": lambda sx, st: Func(_ws_send_frames, "ws_send"),
    "log": lambda sx, st: LOGGER,
}
send_subs.ghost_havoc = lambda sx, body, st: [st.ghost.__setitem__(g, sx.fresh(st.ghost[g].ty, "g_" + g, st)) for g in ("n_items", "n_frames", "item_sub_id", "item_is_eose")]
