"""
Bounded stand-ins wired into the property checks.  They run the REAL functions of the tree under check on an exhaustively
enumerated small scope; their results are reported under coverage.bounded, labelled bounded, and are never counted as proved.
"""
import json
import os
import subprocess
import sys
import time

ROOT = os.path.dirname(os.path.dirname(os.path.abspath(__file__)))


def _run_enum(backend, max_store, out):
    env = dict(os.environ)
    env["PYTHONPATH"] = ROOT
    cmd = [sys.executable, os.path.join(ROOT, "bounded", "query_enum.py"), "--backend", backend, "--max-store", str(max_store), "--json", out]
    p = subprocess.run(cmd, capture_output=True, text=True, env=env, timeout=3000)
    if p.returncode != 0 or not os.path.exists(out):
        raise RuntimeError("query_enum %s failed: %s" % (backend, (p.stdout + p.stderr)[-1500:]))
    return json.load(open(out))


_CACHE = {}


def query_enum_check(prop, backends=("kv", "sql")):
    """extra check for C01/C02/C11/C12: every failure class of the enumerator that concerns `prop` must be a recorded finding"""

    def check(tier, seed):
        from .index import KNOWN_FINDINGS
        t0 = time.time()
        n = 3 if tier == "thorough" else 2
        outdir = os.path.join(os.environ.get("PYVC_OUT_DIR", ROOT), "replays")
        os.makedirs(outdir, exist_ok=True)
        res = {"name": "query-path-enumeration", "kind": "bounded stand-in (exhaustive small scope, real code, in-memory lmdb stand-in / sqlite)",
               "status": "ok", "evaluations": 0, "distinct": 0, "known_lines": [], "runs": [], "exhaustive": True,
               "rule": "a case is one (store, filter or two-filter REQ, limit) triple, or one (store minus one event, filter) pair of the neighbour relation; all "
                       "are distinct by construction (exhaustive enumeration of the stated scope, no sampling); counted as non-trivial: the (store, filter) "
                       "pairs whose unlimited answer is non-empty"}
        listed = {f["bounded_class"]: f for f in KNOWN_FINDINGS if f.get("bounded_class") and f.get("status", "open") == "open"}
        for be in backends:
            out = os.path.join(outdir, "%s_enum_%s.json" % (prop, be))
            r = _run_enum(be, n, out)
            res["evaluations"] += r["cases"]
            res["distinct"] += r["nonempty_answers"]
            res["samples"] = res.get("samples", []) + [dict(x, backend=be) for x in r.get("samples", [])[:2]]
            res["runs"].append({"backend": be, "bound": r["bound"], "cases": r["cases"], "seconds": r["seconds"], "samples": r.get("samples", [])[:2]})
            for c in r["failure_classes"]:
                if c["property"] != prop:
                    continue
                f = listed.get(c["class"])
                if f is not None and f["property"] == prop:
                    line = "KNOWN-FINDING: property=%s %s" % (prop, f["what"])
                    if line not in res["known_lines"]:
                        res["known_lines"].append(line)
                    continue
                res["status"] = "violation"
                res.setdefault("failures", []).append(c)
        res["seconds"] = round(time.time() - t0, 1)
        return res

    check.__name__ = "query_enum_%s" % prop
    return check

from .common import assume_doc  # noqa: E402

assume_doc("LMDBSTUB", "BOUNDED: the LMDB query path runs against /verif/stubs/lmdb.py, an in-memory ordered map with the cursor operations the code uses "
           "(set_range, prev, key, put, delete, get) -- the real lmdb C library is not installed in this image; its byte-wise key order and "
           "cursor semantics are assumed to be those of the stand-in")
assume_doc("ENUM", "BOUNDED, not proved: stores of at most 2 (quick) / 3 (thorough) events out of a fixed universe of 36 events and a fixed family of 343 "
           "filters x limits {none,0,1,2} plus 120 two-filter REQs (the exact numbers of each run are under coverage.bounded); events are inserted through Index.write (LMDB) or DBStorage.add_event with the "
           "validators switched off (SQL); the SQL statement built by the real build_query is run with the stdlib sqlite3 module on the same file; "
           "the NIP-01 oracle is written independently in bounded/query_enum.py; id/author prefixes, search, "
           "replaceable-event histories are not in the universe")


def roundtrip_check(prop):
    """extra check for C04: stored row == accepted event, served frame == accepted event (bounded set of awkward events/sub ids)"""

    def check(tier, seed):
        t0 = time.time()
        outdir = os.path.join(os.environ.get("PYVC_OUT_DIR", ROOT), "replays")
        os.makedirs(outdir, exist_ok=True)
        out = os.path.join(outdir, "%s_roundtrip.json" % prop)
        env = dict(os.environ)
        env["PYTHONPATH"] = ROOT
        p = subprocess.run([sys.executable, os.path.join(ROOT, "bounded", "roundtrip_enum.py"), "--json", out], capture_output=True, text=True, env=env, timeout=600)
        if p.returncode != 0 or not os.path.exists(out):
            raise RuntimeError("roundtrip_enum failed: %s" % (p.stdout + p.stderr)[-1500:])
        r = json.load(open(out))
        res = {"name": "store-and-serve-roundtrip", "kind": "bounded stand-in (fixed set of events and subscription ids, real SQL storage and serializer)",
               "status": "ok", "evaluations": r["cases"], "distinct": r["cases"], "known_lines": [], "exhaustive": True,
               "rule": "one case per (event, path stored|live, subscription id) of a fixed list of %d events x %d ids chosen for JSON/SQL-sensitive characters; all distinct" % (r["events"], r["sub_ids"]),
               "samples": r.get("samples", [])[:2], "seconds": round(time.time() - t0, 1)}
        if r["failure_classes"]:
            res["status"] = "violation"
            res["failures"] = [{"kind": c["kind"], "count": c["count"], "example": c["example"]} for c in r["failure_classes"]]
        return res

    check.__name__ = "roundtrip_%s" % prop
    return check


assume_doc("RTRIP", "BOUNDED, not proved: 24 events (15 contents, 9 tag lists incl. integers) x 7 subscription ids; SQL backend over sqlite; validators "
           "switched off; the LMDB record codec is not exercised (msgpack is not installed; the stand-in is not the real codec)")


def gc_check(prop):
    """extra check for C17: one real GC pass over a store of 5 kind classes x 7 expiration values, both backends"""

    def check(tier, seed):
        from .index import KNOWN_FINDINGS
        t0 = time.time()
        outdir = os.path.join(os.environ.get("PYVC_OUT_DIR", ROOT), "replays")
        os.makedirs(outdir, exist_ok=True)
        res = {"name": "garbage-collection-pass", "kind": "bounded stand-in (real add_event + real collector, sqlite / in-memory lmdb stand-in)",
               "status": "ok", "evaluations": 0, "distinct": 0, "known_lines": [], "exhaustive": True, "samples": [],
               "rule": "one case per (kind class, expiration text) pair: kinds regular / 5 / replaceable / parameterised replaceable / ephemeral x "
                       "expiration none / past / future / 10-digit past / '999' / '10000000000' / '0x'; all distinct"}
        open_ids = {"sql": "C17-sql-expiration-string-compare", "kv": "C17-kv-expiration-string-compare"}
        listed = {f["id"]: f for f in KNOWN_FINDINGS if f["property"] == prop and f.get("status", "open") == "open"}
        for be in ("sql", "kv"):
            out = os.path.join(outdir, "%s_gc_%s.json" % (prop, be))
            env = dict(os.environ)
            env["PYTHONPATH"] = ROOT
            p = subprocess.run([sys.executable, os.path.join(ROOT, "bounded", "gc_enum.py"), "--backend", be, "--json", out], capture_output=True, text=True, env=env, timeout=600)
            if p.returncode != 0 or not os.path.exists(out):
                raise RuntimeError("gc_enum %s failed: %s" % (be, (p.stdout + p.stderr)[-1500:]))
            r = json.load(open(out))
            res["evaluations"] += r["cases"]
            res["distinct"] += r["cases"]
            res["samples"] += [dict(x, backend=be) for x in r["samples"][:2]]
            for c in r["failure_classes"]:
                f = listed.get(open_ids[be]) if c["class"] else None
                if f is not None:
                    continue      # the text-comparison corner cases: reported by the finding's own witness line
                res["status"] = "violation"
                res.setdefault("failures", []).append({"kind": c["kind"], "count": c["count"], "example": dict(c["example"], backend=be)})
        res["seconds"] = round(time.time() - t0, 1)
        return res

    check.__name__ = "gc_%s" % prop
    return check


assume_doc("GCENUM", "BOUNDED, not proved: 35 events (5 kind classes x 7 expiration texts) per backend, one collector pass, clock = the machine's clock; "
           "the LMDB side runs on the in-memory stand-in")


def ack_check(prop):
    """extra check for C06: OK=true => retrievable once writers are idle, OK=false => no trace, well-formed => not refused; both backends"""

    def check(tier, seed):
        from .index import KNOWN_FINDINGS
        t0 = time.time()
        outdir = os.path.join(os.environ.get("PYVC_OUT_DIR", ROOT), "replays")
        os.makedirs(outdir, exist_ok=True)
        res = {"name": "acknowledgement-agrees-with-the-store", "kind": "bounded stand-in (real add_event + real query path, sqlite / in-memory lmdb stand-in)",
               "status": "ok", "evaluations": 0, "distinct": 0, "known_lines": [], "exhaustive": True, "samples": [],
               "rule": "one case per awkward event (31: long / bare / integer / multi-byte tags, deletion requests naming nothing or malformed ids, "
                       "timestamp and kind edges, replaceable kinds, ephemeral) per backend; all distinct"}
        listed = {f["bounded_class"]: f for f in KNOWN_FINDINGS if f["property"] == prop and f.get("bounded_class") and f.get("status", "open") == "open"}
        for be in ("sql", "kv"):
            out = os.path.join(outdir, "%s_ack_%s.json" % (prop, be))
            env = dict(os.environ)
            env["PYTHONPATH"] = ROOT
            p = subprocess.run([sys.executable, os.path.join(ROOT, "bounded", "ack_enum.py"), "--backend", be, "--json", out], capture_output=True, text=True, env=env, timeout=600)
            if p.returncode != 0 or not os.path.exists(out):
                raise RuntimeError("ack_enum %s failed: %s" % (be, (p.stdout + p.stderr)[-1500:]))
            r = json.load(open(out))
            res["evaluations"] += r["cases"]
            res["distinct"] += r["cases"]
            res["samples"] += r["samples"][:2]
            for c in r["failure_classes"]:
                f = listed.get(c["class"]) if (c["class"] and be == "kv" and c["kind"] == "acknowledged-true-but-not-retrievable") else None
                if f is not None:
                    continue      # reported by the finding's own witness line
                res["status"] = "violation"
                res.setdefault("failures", []).append({"kind": c["kind"], "count": c["count"], "example": dict(c["example"], backend=be)})
        res["seconds"] = round(time.time() - t0, 1)
        return res

    check.__name__ = "ack_%s" % prop
    return check


assume_doc("ACKENUM", "BOUNDED, not proved: 31 awkward events per backend submitted to one fresh store each; the LMDB side runs on the in-memory stand-in "
           "(key limit 511 bytes as in LMDB's default build)")
assume_doc("AUTHENUM", "BOUNDED, not proved: 5 spellings of relay_urls x ~16 relay tags x 3 challenges; the contract on check_auth_event is stated for an "
           "authenticator whose valid_urls is a list, which Authenticator.parse_options (not under contract) has to produce")
assume_doc("COHENUM", "BOUNDED, not proved: every history of up to 4 (thorough: 5) operations out of 21 (17 signed events, 3 direct deletions, one collector "
           "pass) on the in-memory lmdb stand-in, an engine error injected at every put/delete of the last operation of histories up to 3 (4); "
           "integer tag values, duplicate tags, NUL, 600-byte values and a multi-byte tag name are in the pool, booleans / floats are not (admission refuses them)")


def roles_check(prop):
    """extra check for C14: the role table round trip (assign / re-assign / revoke / read) on the real SQL storage"""

    def check(tier, seed):
        t0 = time.time()
        outdir = os.path.join(os.environ.get("PYVC_OUT_DIR", ROOT), "replays")
        os.makedirs(outdir, exist_ok=True)
        out = os.path.join(outdir, "%s_roles.json" % prop)
        env = dict(os.environ)
        env["PYTHONPATH"] = ROOT
        p = subprocess.run([sys.executable, os.path.join(ROOT, "bounded", "roles_enum.py"), "--json", out], capture_output=True, text=True, env=env, timeout=900)
        if p.returncode != 0 or not os.path.exists(out):
            raise RuntimeError("roles_enum failed: %s" % (p.stdout + p.stderr)[-1500:])
        r = json.load(open(out))
        res = {"name": "role-storage-roundtrip", "kind": "bounded stand-in (all operation sequences up to length 3 over two keys, real DBStorage on sqlite)",
               "status": "ok", "evaluations": r["cases"], "distinct": r["cases"], "known_lines": [], "exhaustive": True,
               "rule": "one case per operation of every sequence of <= 3 operations out of {assign 'a' / 'WQ' / '' to P1, assign 'a' to P2, read P1, read P2} "
                       "followed by a read of both keys; a fresh storage object per sequence",
               "samples": r.get("samples", [])[:2], "seconds": round(time.time() - t0, 1)}
        if r["failure_classes"]:
            res["status"] = "violation"
            res["failures"] = [{"kind": c["kind"], "count": c["count"], "example": c["example"]} for c in r["failure_classes"]]
        return res

    check.__name__ = "roles_%s" % prop
    return check


assume_doc("ROLES", "BOUNDED, not proved: role table histories of at most 3 operations + 2 reads over two public keys, SQL backend only (the LMDB backend "
           "stores roles as service events, i.e. through add_event and the query path)")


def atomic_check(prop):
    """extra check for C07: an engine error injected at every statement of a multi-statement event leaves every table as it was"""

    def check(tier, seed):
        t0 = time.time()
        outdir = os.path.join(os.environ.get("PYVC_OUT_DIR", ROOT), "replays")
        os.makedirs(outdir, exist_ok=True)
        out = os.path.join(outdir, "%s_atomic.json" % prop)
        env = dict(os.environ)
        env["PYTHONPATH"] = ROOT
        p = subprocess.run([sys.executable, os.path.join(ROOT, "bounded", "atomic_enum.py"), "--json", out], capture_output=True, text=True, env=env, timeout=600)
        if p.returncode != 0 or not os.path.exists(out):
            raise RuntimeError("atomic_enum failed: %s" % (p.stdout + p.stderr)[-1500:])
        r = json.load(open(out))
        res = {"name": "engine-error-injection", "kind": "bounded stand-in (real DBStorage on sqlite, an engine error injected at every statement of the last event)",
               "status": "ok", "evaluations": r["cases"], "distinct": r["cases"], "known_lines": [], "exhaustive": True,
               "rule": "three histories (replace a replaceable event; kind-5 deletion of two own events; kind-0 superseding an older one); one case per "
                       "statement index of the last event, plus the fault-free run",
               "samples": r.get("samples", [])[:3], "seconds": round(time.time() - t0, 1)}
        if r["failure_classes"]:
            res["status"] = "violation"
            res["failures"] = [{"kind": c["kind"], "count": c["count"], "example": c["example"]} for c in r["failure_classes"]]
        return res

    check.__name__ = "atomic_%s" % prop
    return check


assume_doc("ATOMIC", "BOUNDED, not proved: that an exception leaving `async with self.db.begin()` restores the store is exercised for three histories x every "
           "statement index of the last event on SQLite as the relay configures it (in-process error injection; process kills and power loss are not exercised)")


def script_check(prop, script, name, kind, rule, assumption=None, args=()):
    """generic wrapper: run bounded/<script> --json OUT; every failure class it reports is a violation (no listed classes)"""

    def check(tier, seed):
        t0 = time.time()
        outdir = os.path.join(os.environ.get("PYVC_OUT_DIR", ROOT), "replays")
        os.makedirs(outdir, exist_ok=True)
        out = os.path.join(outdir, "%s_%s.json" % (prop, name))
        env = dict(os.environ)
        env["PYTHONPATH"] = ROOT
        env["VERIF_TIER"] = tier
        p = subprocess.run([sys.executable, os.path.join(ROOT, "bounded", script), "--json", out] + list(args), capture_output=True, text=True, env=env, timeout=3000)
        if p.returncode != 0 or not os.path.exists(out):
            raise RuntimeError("%s failed: %s" % (script, (p.stdout + p.stderr)[-1500:]))
        r = json.load(open(out))
        res = {"name": name, "kind": kind, "status": "ok", "evaluations": r["cases"], "distinct": r["cases"], "known_lines": [], "exhaustive": True,
               "rule": rule, "samples": r.get("samples", [])[:3], "seconds": round(time.time() - t0, 1), "script": script}
        if r["failure_classes"]:
            res["status"] = "violation"
            res["failures"] = [{"kind": c["kind"], "count": c["count"], "example": dict(c["example"], script=script) if isinstance(c["example"], dict) else c["example"]}
                               for c in r["failure_classes"]]
        return res

    check.__name__ = "%s_%s" % (name.replace("-", "_"), prop)
    return check


assume_doc("STARTUP", "BOUNDED, not proved: three start-up orders (web.create_app, Config.load then get_storage, import web then load) in fresh interpreters "
           "with max_limit = 3; other embeddings of the package are not exercised")
assume_doc("PARSEOPT", "BOUNDED, not proved: every rate-limit option string of 1..3 items out of a 7-item alphabet, compared with an independent parser")
