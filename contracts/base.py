"""
Sidecar contracts for nostr_relay/storage/base.py: the subscription registry (subscribe / unsubscribe),
live fan-out (notify_all_connected, BaseSubscription.notify).
Properties: C13 (never silent, limit, replacement), C05 (fan-out to exactly the open subscriptions, once each),
C14 (query authorization before a subscription starts; output validator on live pushes), C19.
"""
import z3
from pyvc import vals as V
from pyvc.vals import Val, Ref, Func, Conc, NONE
from pyvc.sx import R, Out, Exc, LoopSpec, fresh_name, Unsupported, View
from pyvc import builtins as B
from .common import REG, Contract, Unit, SpecFunc, LOGGER, EVENT, assume_doc
from .auth import TOKEN

P = "nostr_relay/storage/base.py"
CLIENT = V.Opaque("ClientID")
SUB = V.Opaque("Subscription")
SUBS = V.Dict(V.Str, SUB)


class RegTy(V.Ty):
    """self.clients: total map client -> (present?, subscriptions)"""
    name = "Registry"

    def sort(self):
        return z3.ArraySort(CLIENT.sort(), V.Opt(SUBS).sort())


REGT = RegTy()
OSUBS = V.Opt(SUBS)

REG.classes["Clients"] = {"map": REGT}
REG.classes["BaseStorage"] = {
    "log": lambda sx, st, name: LOGGER,
    "clients": V.ObjT("Clients"),
    "authenticator": V.ObjT("StorageAuthenticator"),
    "__frozen__": ("authenticator", "clients"),
}
REG.classes["StorageAuthenticator"] = {}
REG.classes["ConfigGlobal"] = {"subscription_limit": V.Int, "fts_enabled": V.Bool, "max_limit": V.Int,
                               "__frozen__": ("subscription_limit", "fts_enabled", "max_limit")}


def _config(sx, st):
    if "__cell_Config" not in st.ghost:
        from pyvc.verify import make_object
        st.ghost["__cell_Config"] = Conc(make_object(sx, REG, "ConfigGlobal", st, "Config"))
    return st.ghost["__cell_Config"].v


REG.globals["Config"] = _config


def subs_view(sx, st, clients_ref, cid):
    """a reference to self.clients[cid] (the inner dict object): reads/writes go to the registry map"""
    cell_of = clients_ref.cell

    def get(s):
        m = s.getcell(cell_of)["map"]
        return Val(SUBS, OSUBS.get(z3.Select(m.term, cid.term)))

    def set_(s, val):
        m = s.getcell(cell_of)["map"]
        s.getcell(cell_of)["map"] = Val(REGT, z3.Store(m.term, cid.term, OSUBS.some(val.term)))

    return Ref(SUBS, st.alloc(View(get, set_)))


def reg_entry(st, clients_ref, cid):
    m = st.getcell(clients_ref.cell)["map"]
    return z3.Select(m.term, cid.term)


@REG.method("Clients", "setdefault", frame=["self"])
def _clients_setdefault(sx, args, kwargs, st, node):
    clients, cid = args[0], args[1]
    e = reg_entry(st, clients, cid)
    m = st.getcell(clients.cell)["map"]
    # absent -> a new empty dict is stored
    newm = z3.If(OSUBS.is_none(e), z3.Store(m.term, cid.term, OSUBS.some(SUBS.empty())), m.term)
    st.getcell(clients.cell)["map"] = Val(REGT, newm)
    return [R(st, subs_view(sx, st, clients, cid))]


@REG.hook("getitem", "Clients")
def _clients_getitem(sx, obj, k, st, node):
    e = reg_entry(st, obj, k)
    outs = []
    isn = OSUBS.is_none(e)
    if not sx.spec_mode:
        s2 = st.fork().assume(isn)
        if sx.feasible(s2):
            outs.append(R(s2, None, Exc("KeyError")))
        st.assume(z3.Not(isn))
    outs.append(R(st, subs_view(sx, st, obj, k)))
    return outs


@REG.hook("contains", "Clients")
def _clients_contains(sx, obj, item, st, node):
    return [(st, z3.Not(OSUBS.is_none(reg_entry(st, obj, item))), None)]


@REG.hook("delitem", "Clients")
def _clients_delitem(sx, obj, k, st, node):
    e = reg_entry(st, obj, k)
    outs = []
    isn = OSUBS.is_none(e)
    s2 = st.fork().assume(isn)
    if sx.feasible(s2):
        outs.append((s2, Exc("KeyError")))
    st.assume(z3.Not(isn))
    m = st.getcell(obj.cell)["map"]
    st.getcell(obj.cell)["map"] = Val(REGT, z3.Store(m.term, k.term, OSUBS.none()))
    outs.append((st, None))
    return outs


@REG.model("subs_of")
def _subs_of(sx, args, kwargs, st, node):
    """spec accessor: subs_of(self.clients, client) -> the client's dict (empty dict if the client is not registered)"""
    e = reg_entry(st, args[0], args[1])
    return [R(st, Val(SUBS, z3.If(OSUBS.is_none(e), SUBS.empty(), OSUBS.get(e))))]


@REG.model("registered")
def _registered(sx, args, kwargs, st, node):
    return [R(st, Val(V.Bool, z3.Not(OSUBS.is_none(reg_entry(st, args[0], args[1])))))]


# ---- subscription objects ----------------------------------------------------------------------
def _sub_method(sx, obj, attr, args, kwargs, st, node):
    if attr == "cancel":
        c = st.ghost["cancelled"]
        st.ghost["cancelled"] = Val(c.ty, z3.Store(c.term, obj.term, True))
        return [R(st, NONE)]
    if attr == "prepare":
        return [R(st, sx.fresh(V.Bool, "prepared", st))]
    if attr == "start":
        s = st.ghost["started"]
        st.ghost["started"] = Val(s.ty, z3.Store(s.term, obj.term, True))
        st.ghost["start_after_auth"] = Val(V.Bool, z3.And(st.ghost["start_after_auth"].term, st.ghost["query_authorized"].term))
        return [R(st, NONE)]
    if attr == "notify":
        n = st.ghost["notified"]
        st.ghost["notified"] = Val(n.ty, z3.Store(n.term, obj.term, z3.Select(n.term, obj.term) + 1))
        return [R(st, Conc("coroutine:notify"))]
    return None


REG.hooks[("method", repr(SUB))] = _sub_method
SUBSET = V.Set(SUB)


def _subscription_class(sx, args, kwargs, st, node):
    """self.subscription_class(storage, sub_id, filters, queue=..., client_id=..., auth_token=...) (ASSUMED constructor:
    BaseSubscription.__init__ only stores its arguments): a fresh subscription object"""
    s = sx.fresh(SUB, "new_sub", st)
    st.assume(z3.Not(z3.Select(st.ghost["cancelled"].term, s.term)))
    st.assume(z3.Not(z3.Select(st.ghost["started"].term, s.term)))
    st.ghost["created_sub"] = s
    return [R(st, s), R(st.fork(), None, Exc("Exception", exact=False, excluding=("StorageError", "AuthenticationError", "ValidationError")))]


REG.classes["BaseStorage"]["subscription_class"] = lambda sx, st, name: Func(_subscription_class, "subscription_class")


class NostrQueryCls:
    def __pyvc_getattr__(self, sx, attr, st, node):
        if attr == "model_validate":
            def mv(sx2, a, k, s, n):
                """NostrQuery.model_validate (own contract, C01/C19): a validated filter, or ValidationError (dropped
                filter), or StorageError('not a query'), or another exception (TypeError for unhashable tag values)"""
                q = sx2.fresh(V.Opaque("NostrQuery"), "query", s)
                return [R(s, q), R(s.fork(), None, Exc("ValidationError")), R(s.fork(), None, Exc("StorageError")),
                        R(s.fork(), None, Exc("Exception", exact=False, excluding=("StorageError", "AuthenticationError", "ValidationError")))]
            return [R(st, Func(mv, "NostrQuery.model_validate"))]
        raise Unsupported("NostrQuery.%s" % attr, node)


REG.globals["NostrQuery"] = Conc(NostrQueryCls())


class ActionEnum:
    def __pyvc_getattr__(self, sx, attr, st, node):
        return [R(st, Conc(EnumMember(attr)))]


class EnumMember:
    def __init__(self, v):
        self.v = v

    def __pyvc_getattr__(self, sx, attr, st, node):
        if attr == "value":
            return [R(st, V.mk_str(self.v))]
        raise Unsupported("enum member attr", node)


REG.globals["Action"] = Conc(ActionEnum())


@REG.method("StorageAuthenticator", "can_do", frame=[])
def _can_do(sx, args, kwargs, st, node):
    """authenticator.can_do (own contract, C14): a boolean; recorded with the action it was asked about"""
    r = sx.fresh(V.Bool, "can_do", st)
    act = z3.simplify(args[2].term)
    if z3.is_string_value(act) and act.as_string() == "query":
        st.ghost["query_authorized"] = r
        st.ghost["query_check_calls"] = Val(V.Int, st.ghost["query_check_calls"].term + 1)
    if z3.is_string_value(act) and act.as_string() == "save":
        st.ghost["save_authorized"] = r
    return [R(st, r)]


class QueueModel:
    """the per-connection asyncio.Queue as seen by storage: put() records (sub_id, is_sentinel)"""

    def __pyvc_getattr__(self, sx, attr, st, node):
        if attr == "put":
            def put(sx2, a, k, s, n):
                item = a[0]
                if isinstance(item, Val) and isinstance(item.ty, V.Tuple) and len(item.ty.items) == 2:
                    item = Conc(tuple(Val(t, item.ty.field(item.term, i)) for i, t in enumerate(item.ty.items)))
                if isinstance(item, Conc) and isinstance(item.v, tuple) and len(item.v) == 2:
                    sid, ev = item.v
                    is_sentinel = isinstance(ev, Val) and isinstance(ev.ty, V._None)
                    g = "n_eose_put" if is_sentinel else "n_event_put"
                    s.ghost[g] = Val(V.Int, s.ghost[g].term + 1)
                    s.ghost["last_put_sub_id"] = sx2.coerce_str(sid, s)
                else:
                    s.ghost["n_other_put"] = Val(V.Int, s.ghost["n_other_put"].term + 1)
                return [R(s, NONE)]
            return [R(st, Func(put, "queue.put"))]
        raise Unsupported("queue.%s" % attr, node)


def ghost_registry(sx, st):
    bs = V.Set(SUB)
    st.ghost["cancelled"] = sx.fresh(bs, "cancelled0", st)
    st.ghost["started"] = sx.fresh(bs, "started0", st)
    st.ghost["start_after_auth"] = V.mk_bool(True)
    st.ghost["query_authorized"] = V.mk_bool(False)
    st.ghost["save_authorized"] = V.mk_bool(False)
    st.ghost["query_check_calls"] = V.mk_int(0)
    for g in ("n_eose_put", "n_event_put", "n_other_put"):
        st.ghost[g] = V.mk_int(0)
    st.ghost["last_put_sub_id"] = V.mk_str("")
    st.ghost["created_sub"] = sx.fresh(SUB, "no_sub", st)


def setup_subscribe(sx, st, params):
    st.env["queue"] = Conc(QueueModel())
    st.env["kwargs"] = Conc({})


OLD_SUBS = "old(subs_of(self.clients, client_id))"
NEW_SUBS = "subs_of(self.clients, client_id)"
subscribe_contract = Contract(
    "BaseStorage.subscribe",
    {"self": V.ObjT("BaseStorage"), "client_id": CLIENT, "sub_id": V.Str, "filters": V.Json, "auth_token": V.Opt(TOKEN),
     "c0": CLIENT, "k0": V.Str},
    requires=[("limit-respected-before", "implies(Config.subscription_limit > 0, len(subs_of(self.clients, client_id)) <= Config.subscription_limit)")],
    ensures=[
        # never silent: a REQ that is not refused either started a subscription or was answered with the EOSE sentinel
        ("accepted-req-starts-or-gets-eose",
         "(ghost('n_eose_put') == 1 and ghost('last_put_sub_id') == sub_id and not (sub_id in %s)) or "
         "(ghost('n_eose_put') == 0 and sub_id in %s and %s[sub_id] == ghost('created_sub') and ghost('created_sub') in ghost('started'))" % (NEW_SUBS, NEW_SUBS, NEW_SUBS)),
        ("no-events-put-by-subscribe", "ghost('n_event_put') == 0 and ghost('n_other_put') == 0"),
        # a connection never holds more than subscription_limit subscriptions
        ("limit-respected-after", "implies(Config.subscription_limit > 0, len(%s) <= Config.subscription_limit)" % NEW_SUBS),
        # replacement: the old subscription under this id is cancelled
        ("old-subscription-cancelled", "implies(sub_id in %s, %s[sub_id] in ghost('cancelled'))" % (OLD_SUBS, OLD_SUBS)),
        # other ids of this connection and all other connections are untouched
        ("other-ids-untouched", "implies(k0 != sub_id, (k0 in %s) == (k0 in %s) and implies(k0 in %s, %s[k0] == %s[k0]))" % (NEW_SUBS, OLD_SUBS, OLD_SUBS, NEW_SUBS, OLD_SUBS)),
        ("other-connections-untouched", "implies(c0 != client_id, subs_of(self.clients, c0) == old(subs_of(self.clients, c0)) and registered(self.clients, c0) == old(registered(self.clients, c0)))"),
        # C14: the query authorization is checked before the subscription starts
        ("started-only-if-authorized", "ghost('start_after_auth')"),
    ],
    raises={"StorageError": True, "AuthenticationError": True, "Exception+": True},
    exc_ensures={
        # a refusal leaves the other subscriptions of the connection intact and puts nothing on the queue
        "StorageError": [("refusal-leaves-others-intact", "implies(k0 != sub_id, (k0 in %s) == (k0 in %s) and implies(k0 in %s, %s[k0] == %s[k0]))" % (NEW_SUBS, OLD_SUBS, OLD_SUBS, NEW_SUBS, OLD_SUBS)),
                         ("refusal-puts-nothing", "ghost('n_eose_put') == 0 and ghost('n_event_put') == 0"),
                         ("refused-req-is-not-registered", "not (sub_id in %s)" % NEW_SUBS)],
        "AuthenticationError": [("refusal-leaves-others-intact", "implies(k0 != sub_id, (k0 in %s) == (k0 in %s))" % (NEW_SUBS, OLD_SUBS)),
                                ("refusal-starts-nothing", "not (ghost('created_sub') in ghost('started'))"),
                                # C14/C05: a REQ refused for lack of the query role must not stay in the registry, where
                                # notify_all_connected would push live events to it
                                ("refused-req-is-not-registered", "not (sub_id in %s)" % NEW_SUBS)],
    },
)
subscribe_contract.ghost_params = ("c0", "k0")
subscribe = REG.unit(Unit(
    P, "BaseStorage.subscribe", subscribe_contract,
    props=["C13", "C14", "C19", "C05"], ghost_init=ghost_registry, setup=setup_subscribe,
    canaries=[("never-registers", "not (sub_id in %s)" % NEW_SUBS)],
))
subscribe.param_defaults = {"queue": lambda sx, st: Conc(QueueModel()), "kwargs": lambda sx, st: Conc({})}
subscribe.ghost_havoc = lambda sx, body, st: None  # the filter-cleaning loop touches no ghost state
subscribe.local_types = {"cleaned_filters": V.List(V.Opaque("NostrQuery"))}
subscribe.obligation_props = [("limit-respected", ["C13"]), ("started-only-if-authorized", ["C14"]), ("refused-req-is-not-registered", ["C14", "C05", "C13"]),
                              ("exc:", ["C19", "C13"])]


# ---- unsubscribe -------------------------------------------------------------------------------
UNSUB_ONE = "(sub_id is not None)"
unsubscribe_contract = Contract(
    "BaseStorage.unsubscribe",
    {"self": V.ObjT("BaseStorage"), "client_id": CLIENT, "sub_id": V.Opt(V.Str), "c0": CLIENT, "k0": V.Str},
    ensures=[
        # CLOSE / replacement: exactly this subscription is removed and its query task cancelled
        ("removes-exactly-this-subscription",
         "implies(%s, not (sub_id in %s) and implies(k0 != sub_id, (k0 in %s) == (k0 in %s) and implies(k0 in %s, %s[k0] == %s[k0])))"
         % (UNSUB_ONE, NEW_SUBS, NEW_SUBS, OLD_SUBS, OLD_SUBS, NEW_SUBS, OLD_SUBS)),
        ("cancels-its-query-task", "implies(%s and sub_id in %s, %s[sub_id] in ghost('cancelled'))" % (UNSUB_ONE, OLD_SUBS, OLD_SUBS)),
        ("size-drops-by-one-if-present", "implies(%s, len(%s) == len(%s) - (1 if sub_id in %s else 0))" % (UNSUB_ONE, NEW_SUBS, OLD_SUBS, OLD_SUBS)),
        ("keeps-the-connection-registered", "implies(%s, registered(self.clients, client_id) == old(registered(self.clients, client_id)))" % UNSUB_ONE),
        # disconnect: the whole connection is dropped
        ("disconnect-drops-the-connection", "implies(sub_id is None, not registered(self.clients, client_id))"),
        ("other-connections-untouched", "implies(c0 != client_id, subs_of(self.clients, c0) == old(subs_of(self.clients, c0)) and registered(self.clients, c0) == old(registered(self.clients, c0)))"),
        ("cancels-nothing-else", "forall(lambda s: implies(s in ghost('cancelled') and not (s in old(ghost('cancelled'))), sub_id is not None and sub_id in %s and s == %s[sub_id]), s=Opaque('Subscription'))" % (OLD_SUBS, OLD_SUBS)),
    ],
    raises={},  # never raises (web.start_client's finally block relies on it)
    modifies=["self.clients", "ghost.cancelled"],
)
unsubscribe_contract.ghost_params = ("c0", "k0")
unsubscribe = REG.unit(Unit(
    P, "BaseStorage.unsubscribe", unsubscribe_contract,
    props=["C13", "C19", "C05"], ghost_init=ghost_registry,
    canaries=[("never-removes", "sub_id is None or sub_id in %s" % NEW_SUBS)],
))


# ---- live fan-out --------------------------------------------------------------------------------
# notify_all_connected: one notify(event) task per subscription yielded by iterating the registry, nothing else.
# (That iterating dict.values() yields every value exactly once is the assumed contract of dict.)
from .common import TASK  # noqa: E402
TASKS = V.List(TASK)
NOTIFIED = MapNotified = None


NOTIFIED = V.Map(SUB, V.Int)


class RegistryValues:
    """self.clients.values(): yields the per-connection dicts of the registry"""

    def __init__(self, clients_ref):
        self.clients_ref = clients_ref

    def __pyvc_iter__(self, sx, st, node):
        return ("opaque", self)

    def next(self, sx, st, k):
        c = sx.fresh(CLIENT, "conn", st)
        e = reg_entry(st, self.clients_ref, c)
        st.assume(z3.Not(OSUBS.is_none(e)))
        return [R(st, Conc(ClientDict(self.clients_ref, c)))]


class ClientDict:
    def __init__(self, clients_ref, cid):
        self.clients_ref, self.cid = clients_ref, cid

    def __pyvc_getattr__(self, sx, attr, st, node):
        if attr == "values":
            return [R(st, Func(lambda sx2, a, k, s, n: [R(s, Conc(SubValues(self.clients_ref, self.cid)))], "dict.values"))]
        raise Unsupported("client dict .%s" % attr, node)


class SubValues:
    def __init__(self, clients_ref, cid):
        self.clients_ref, self.cid = clients_ref, cid

    def __pyvc_iter__(self, sx, st, node):
        return ("opaque", self)

    def next(self, sx, st, k):
        key = sx.fresh(V.Str, "sub_key", st)
        d = OSUBS.get(reg_entry(st, self.clients_ref, self.cid))
        st.assume(z3.Select(SUBS.dom(d), key.term))
        s = Val(SUB, z3.Select(SUBS.map(d), key.term))
        st.ghost["cur_open_sub"] = s
        return [R(st, s)]


@REG.method("Clients", "values", frame=[])
def _clients_values(sx, args, kwargs, st, node):
    return [R(st, Conc(RegistryValues(args[0])))]


class StatCollector:
    """stat_collector.timeit(name): a context manager yielding a counter dict (assumption A6: no other effect)"""

    def __pyvc_getattr__(self, sx, attr, st, node):
        if attr == "timeit":
            return [R(st, Func(lambda sx2, a, k, s, n: [R(s, Conc(TimeitCM()))], "timeit"))]
        raise Unsupported("stat_collector.%s" % attr, node)


class TimeitCM:
    def enter(self, sx, st, node):
        t = V.Dict(V.Str, V.Int)
        d = Val(t, t.put(t.empty(), z3.StringVal("count"), z3.IntVal(0)))
        return [R(st, Ref(t, st.alloc(d)))]

    def exit(self, sx, st, exc, node):
        return [R(st, False)]


REG.ctx_managers.append((lambda m, st: isinstance(m, Conc) and isinstance(m.v, TimeitCM), lambda m: m.v))
REG.classes["BaseStorage"]["stat_collector"] = lambda sx, st, name: Conc(StatCollector())
REG.classes["BaseStorage"]["_notify_sub_tasks"] = TASKS


def ghost_notify(sx, st):
    ghost_registry(sx, st)
    st.ghost["notified"] = sx.fresh(NOTIFIED, "notified0", st)
    st.ghost["tasks_created"] = V.mk_int(0)
    st.ghost["cur_open_sub"] = sx.fresh(SUB, "no_sub", st)
    st.ghost["notified_only_open"] = V.mk_bool(True)


def _sub_notify_hook(sx, obj, attr, args, kwargs, st, node):
    if attr == "notify":
        n = st.ghost["notified"]
        st.ghost["notified"] = Val(NOTIFIED, z3.Store(n.term, obj.term, z3.Select(n.term, obj.term) + 1))
        ok = z3.And(obj.term == st.ghost["cur_open_sub"].term, sx.eq(args[0], sx.lookup("event", st), st))
        st.ghost["notified_only_open"] = Val(V.Bool, z3.And(st.ghost["notified_only_open"].term, ok))
        return [R(st, Conc("coroutine:notify"))]
    return _sub_method(sx, obj, attr, args, kwargs, st, node)


REG.hooks[("method", repr(SUB))] = _sub_notify_hook

notify_all = REG.unit(Unit(
    P, "BaseStorage.notify_all_connected",
    Contract("BaseStorage.notify_all_connected", {"self": V.ObjT("BaseStorage"), "event": EVENT},
             ensures=[("only-open-subscriptions-notified", "ghost('notified_only_open')"),
                      ("registry-untouched", "True")],
             raises={}),
    loops={
        "self.clients.values()": LoopSpec("connections", index="_c", invariants=[("only-open", "ghost('notified_only_open')"), ("counter", "'count' in counter")]),
        "client.values()": LoopSpec("subs", index="_s", invariants=[("only-open", "ghost('notified_only_open')"), ("counter", "'count' in counter")],
                                    head_snap={"tasks": "self._notify_sub_tasks"}, iter_post=[
            # exactly one notify(event) task per open subscription yielded, recorded in the task list
            ("one-task-per-open-subscription",
             "ghost('tasks_created') == head_tasks_created + 1 and len(self._notify_sub_tasks) == len(head_tasks) + 1 and "
             "ghost('notified')[sub] == head_notified[sub] + 1 and "
             "forall(lambda s: implies(s != sub, ghost('notified')[s] == head_notified[s]), s=Opaque('Subscription'))"),
        ]),
    },
    # C06/C07: add_event calls this after its commit and relies on `raises={}` -- an exception here would turn a stored event into OK=false
    props=["C05", "C06"], ghost_init=ghost_notify,
    canaries=[("notifies-nobody", "ghost('tasks_created') == 0")],
))
notify_all.obligation_props = [("exc:", ["C05", "C06"]), ("", ["C05"])]


# ---- BaseSubscription.notify: live push ----------------------------------------------------------
REG.classes["LiveSub"] = {
    "log": lambda sx, st, name: LOGGER, "sub_id": V.Str, "client_id": CLIENT, "auth_token": V.Opt(TOKEN),
    "filters": V.Opaque("Filters"), "queue": lambda sx, st, name: Conc(QueueModel()), "storage": V.ObjT("LiveStorage"),
    "__frozen__": ("sub_id", "client_id", "filters", "queue", "storage"),
}
REG.classes["LiveStorage"] = {"check_output": V.Opt(V.Opaque("OutputValidator")), "__frozen__": ("check_output",)}
MATCH_LIVE = REG.ufun("match_live", [V.Opaque("Filters").sort(), EVENT.sort()], z3.BoolSort())
OUTPUT_OK = REG.ufun("output_ok", [V.Opaque("OutputValidator").sort(), EVENT.sort()], z3.BoolSort())


@REG.method("LiveSub", "check_event", frame=[])
def _check_event_call(sx, args, kwargs, st, node):
    """self.check_event(event, filters) (own contract, C05): whether some filter matches the event"""
    st.ghost["check_event_calls"] = Val(V.Int, st.ghost["check_event_calls"].term + 1)
    return [R(st, Val(V.Bool, MATCH_LIVE(args[2].term, args[1].term)))]


@REG.hook("call", repr(V.Opaque("OutputValidator")))
def _call_output_validator(sx, f, args, kwargs, st, node):
    """the configured output validator (ASSUMED arbitrary predicate of the event and the context)"""
    st.ghost["output_checked"] = Val(V.Bool, sx.eq(args[0], sx.lookup("event", st), st))
    return [R(st, Val(V.Bool, OUTPUT_OK(f.term, args[0].term)))]


@REG.model("match_live")
def _match_live(sx, args, kwargs, st, node):
    return [R(st, Val(V.Bool, MATCH_LIVE(args[0].term, args[1].term)))]


@REG.model("output_ok")
def _output_ok(sx, args, kwargs, st, node):
    v = args[0]
    t = v.ty
    return [R(st, Val(V.Bool, z3.Or(t.is_none(v.term), OUTPUT_OK(t.get(v.term), args[1].term))))]


class CatchTime:
    def enter(self, sx, st, node):
        return [R(st, Conc(self))]

    def exit(self, sx, st, exc, node):
        return [R(st, False)]

    def __pyvc_getattr__(self, sx, attr, st, node):
        if attr == "duration":
            return [R(st, sx.fresh(V.Real, "duration", st))]
        raise Unsupported("catchtime.%s" % attr, node)


@REG.model("catchtime")
def _catchtime(sx, args, kwargs, st, node):
    return [R(st, Conc(CatchTime()))]


REG.ctx_managers.append((lambda m, st: isinstance(m, Conc) and isinstance(m.v, CatchTime), lambda m: m.v))


def ghost_live(sx, st):
    ghost_registry(sx, st)
    st.ghost["check_event_calls"] = V.mk_int(0)
    st.ghost["output_checked"] = V.mk_bool(False)


PUSH = "(match_live(self.filters, event) and output_ok(self.storage.check_output, event))"
REG.unit(Unit(
    P, "BaseSubscription.notify",
    Contract("BaseSubscription.notify", {"self": V.ObjT("LiveSub"), "event": EVENT},
             ensures=[
                 # exactly the matching events are pushed, once, under this subscription's own id
                 ("pushed-once-iff-matching-and-allowed", "ghost('n_event_put') == (1 if %s else 0)" % PUSH),
                 ("pushed-under-own-id", "implies(%s, ghost('last_put_sub_id') == self.sub_id)" % PUSH),
                 ("no-eose-from-live-path", "ghost('n_eose_put') == 0 and ghost('n_other_put') == 0"),
             ],
             # a failing output validator ends this notify task: fail-closed, nothing is pushed
             raises={"Exception+": True},
             exc_ensures={"Exception+": [("nothing-pushed-when-the-validator-fails", "ghost('n_event_put') == 0 and ghost('n_eose_put') == 0")]}),
    props=["C05", "C14"], ghost_init=ghost_live,
    canaries=[("never-pushes", "ghost('n_event_put') == 0")],
)).obligation_props = []


# ---------------------------------------------------------------------------------------------------- ClientID equality (C05, C13)
# The registry model above (storage.clients: connection -> subscriptions, a WeakKeyDictionary keyed by the ClientID object) identifies
# a connection with its ClientID OBJECT.  That is right as long as two distinct ClientID objects never compare equal; the class
# defines __hash__ only, so equality is object identity.  Stated as a contract on the (absent) __eq__; verified if one appears.
PU = "nostr_relay/util.py"
REG.classes["ClientID"] = {"_idstr": V.Str, "__frozen__": ("_idstr",)}
REG.globals.setdefault("NotImplemented", Conc("NotImplemented"))
clientid_eq = REG.unit(Unit(
    PU, "ClientID.__eq__",
    Contract("ClientID.__eq__", {"self": V.ObjT("ClientID"), "other": V.ObjT("ClientID")},
             # `self` and `other` are two DISTINCT objects here (separate heap cells)
             ensures=[("distinct-connections-never-compare-equal", "not (result is True)")], raises={}),
    props=["C05", "C13"],
    canaries=[("never-returns", "False")],
))
clientid_eq.absent_ok = ("identity-equality", "ClientID defines no __eq__: object.__eq__ compares identities, so two connections are never the same registry key")


# ---------------------------------------------------------------------------------------------------- notify_other_processes (C20)
# whatever event a worker accepted and broadcast locally is also announced to the other workers (when the notifier is configured):
# exactly one notify(event) task, for every kind of event -- the decision what to do with an id belongs to the receiving worker
class _NotifierObj:
    def __pyvc_getattr__(self, sx, attr, st, node):
        if attr == "notify":
            def nf(sx2, a, k, s, n):
                s.ghost["announce_calls"] = Val(V.Int, s.ghost["announce_calls"].term + 1)
                s.ghost["announced_this_event"] = Val(V.Bool, sx2.eq(a[0], sx2.lookup("event", s), s))
                return [R(s, Conc("coroutine:notifier.notify"))]
            return [R(st, Func(nf, "notifier.notify"))]
        raise Unsupported("notifier.%s" % attr, node)


REG.classes["BaseStorageN"] = {"log": lambda sx, st, name: LOGGER, "notifier": lambda sx, st, name: Conc(_NotifierObj()), "_notify_sub_tasks": TASKS}


def ghost_announce(sx, st):
    st.ghost["announce_calls"] = V.mk_int(0)
    st.ghost["announced_this_event"] = V.mk_bool(False)
    st.ghost["tasks_created"] = V.mk_int(0)


REG.unit(Unit(
    P, "BaseStorage.notify_other_processes",
    Contract("BaseStorage.notify_other_processes", {"self": V.ObjT("BaseStorageN"), "event": EVENT},
             ensures=[("every-event-is-announced-once", "ghost('announce_calls') == 1 and ghost('announced_this_event') and ghost('tasks_created') == 1")],
             raises={}),
    props=["C20"], ghost_init=ghost_announce,
    canaries=[("never-returns", "False")],
))
