"""
Syntactic census over the whole package, re-run on the real source every time: the typestate obligations of C03 / C14 / C16 are
stated at the two places where an event enters a store (the INSERT built from `event_insert_query` in DBStorage.add_event, the
("add", [event]) task put on the LMDB writer queue in LMDBStorage.add_event).  They cover every path only if those are the ONLY
places -- which this check establishes by walking the AST of every module of nostr_relay.  It is a discipline check, not an SMT
obligation; a site outside the allowed functions is reported as a violation with its file and line.
"""
import ast
import os
import time

ALLOWED = {
    "event_insert_query": {"DBStorage.add_event"},          # reads of the prepared INSERT statement
    "writer-add-task": {"LMDBStorage.add_event"},           # writer_queue.put(("add", ...))
    "index-write": {"WriterThread.run", "Index.clear", "Index.bulk_update", "IdIndex.write", "Index.write"},   # <index>.write(event, txn)
    "validate-event-wiring": {"BaseStorage.__init__"},      # self.validate_event = get_validator(...)
}


def _qualname(stack):
    return ".".join(stack[-2:]) if len(stack) >= 2 else (stack[-1] if stack else "<module>")


def scan(root):
    sites = []

    class V(ast.NodeVisitor):
        def __init__(self, path):
            self.path = path
            self.stack = []

        def visit_ClassDef(self, node):
            self.stack.append(node.name)
            self.generic_visit(node)
            self.stack.pop()

        def visit_FunctionDef(self, node):
            if node.name == "validate_event":
                # the add_event units model `self.validate_event(event, Config)` as the pipeline built by get_validator: a method of
                # that name would be something else
                sites.append(("validate-event-wiring", self.path, node.lineno, _qualname(self.stack + [node.name]) + " (defined as a method)"))
            self.stack.append(node.name)
            self.generic_visit(node)
            self.stack.pop()

        def visit_Assign(self, node):
            for t in node.targets:
                if isinstance(t, ast.Attribute) and t.attr == "validate_event":
                    v = node.value
                    ok = isinstance(v, ast.Call) and isinstance(v.func, ast.Name) and v.func.id == "get_validator"
                    sites.append(("validate-event-wiring", self.path, node.lineno, _qualname(self.stack) + ("" if ok else " (not get_validator(...))")))
            self.generic_visit(node)

        visit_AsyncFunctionDef = visit_FunctionDef

        def visit_Attribute(self, node):
            if node.attr == "event_insert_query" and isinstance(node.ctx, ast.Load):
                sites.append(("event_insert_query", self.path, node.lineno, _qualname(self.stack)))
            self.generic_visit(node)

        def visit_Call(self, node):
            f = node.func
            if isinstance(f, ast.Attribute) and f.attr == "put" and node.args and isinstance(node.args[0], ast.Tuple) and node.args[0].elts \
                    and isinstance(node.args[0].elts[0], ast.Constant) and node.args[0].elts[0].value == "add":
                sites.append(("writer-add-task", self.path, node.lineno, _qualname(self.stack)))
            if isinstance(f, ast.Attribute) and f.attr in ("execute",) and node.args:
                # a raw INSERT INTO events issued as text would bypass the prepared statement
                a0 = node.args[0]
                txt = ast.unparse(a0).lower()
                if "insert" in txt and "events" in txt and "event_insert_query" not in txt:
                    sites.append(("event_insert_query", self.path, node.lineno, _qualname(self.stack) + " (raw INSERT)"))
            self.generic_visit(node)

    pkg = os.path.join(root, "nostr_relay")
    nfiles = 0
    for dp, dn, fn in os.walk(pkg):
        for f in fn:
            if f.endswith(".py"):
                p = os.path.join(dp, f)
                nfiles += 1
                try:
                    tree = ast.parse(open(p).read())
                except SyntaxError:
                    continue
                V(os.path.relpath(p, root)).visit(tree)
    return sites, nfiles


def census_check(prop):
    def check(tier, seed):
        t0 = time.time()
        root = os.environ.get("PYVC_REPO", "/repo")
        sites, nfiles = scan(root)
        bad = [s for s in sites if s[3].split(" ")[0] not in ALLOWED[s[0]] or "(" in s[3]]
        if not any(s[0] == "validate-event-wiring" for s in sites):
            bad.append(("validate-event-wiring", "nostr_relay/storage/base.py", 0, "BaseStorage.__init__ no longer assigns self.validate_event = get_validator(...)"))
        res = {"name": "storage-entry-census", "kind": "syntactic census of the package (AST walk), not an SMT obligation",
               "status": "ok", "evaluations": nfiles, "distinct": len(sites), "known_lines": [], "exhaustive": True,
               "rule": "every module of nostr_relay is parsed; a site is a read of event_insert_query, a raw INSERT into events, a ('add', ...) task put on a queue, or an assignment / definition of validate_event",
               "samples": [{"kind": k, "file": p, "line": l, "function": q} for (k, p, l, q) in sites][:6], "seconds": round(time.time() - t0, 2)}
        if not sites:
            res["status"] = "crash"
            res["detail"] = "census found no storage entry site at all (scanner broken?)"
        if bad:
            res["status"] = "violation"
            res["failures"] = [{"kind": ("validators-bypassed-or-rewired" if k == "validate-event-wiring" else "event-enters-the-store-outside-add_event"),
                                "example": {"what": k, "file": p, "line": l, "function": q}} for (k, p, l, q) in bad]
        return res
    check.__name__ = "census_%s" % prop
    return check
