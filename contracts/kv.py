"""
Sidecar contracts for nostr_relay/storage/kv.py (LMDB backend).

Keyspace view (ghost):   keys : Set[Bytes]   -- every key present in the environment
                         rec  : Map[Bytes id -> Opt[Event]]  -- the decoded primary record stored under b"\\x00" + id
A write transaction (`env.begin(write=True)`) commits on normal exit and aborts (keys/rec := values at begin) when an
exception leaves the block; every put/delete may fail with an engine error (LMDB and msgpack are ASSUMED, see stubs/).

C10: Index.write puts / deletes exactly suffix(k) for the keys k the index's convert() yields, and nothing else;
     clear = write(delete) through the same generator; _delete_event clears every write index.
C06/C07: the writer loop never lets an exception escape an operation (abort + log + continue).
C03/C14: LMDBStorage.add_event enqueues / broadcasts only validated and authorized events.
C12: execute_one_plan never returns more than plan.limit events.  C01: compile_match_from_query interpolates only repr()s.
"""
import z3
from pyvc import vals as V
from pyvc.vals import Val, Ref, Func, Conc, NONE
from pyvc.sx import R, Out, Exc, LoopSpec, fresh_name, Unsupported
from .common import REG, Contract, Unit, SpecFunc, LOGGER, EVENT, TAGS, FROMHEX, assume_doc
from .auth import TOKEN
from .base import StatCollector

P = "nostr_relay/storage/kv.py"
KEYS = V.Set(V.Bytes)
RECS = V.Map(V.Bytes, V.Opt(EVENT))
assume_doc("LMDB", "LMDB as modelled in contracts/kv.py and stubs/lmdb.py: a write transaction is atomic (commit on normal exit, abort on "
                   "exception), put/delete act on exactly the given key, cursor order is bytewise key order, keys are limited to 511 bytes; "
                   "msgpack round-trips the event row (lists become tuples)")

# big-endian 4-byte encoding: uninterpreted with the facts the contracts need (length 4; order-preserving; injective)
BE4 = REG.ufun("be4", [z3.IntSort()], z3.StringSort())


def be4_facts(x):
    return [z3.Length(BE4(x)) == 4]


def suffix(key, ev):
    """key + 0x00 + created_at(4, big endian) + 0x00 + id bytes"""
    return z3.Concat(key, z3.StringVal("\x00"), BE4(EVENT.get(ev, "created_at")), z3.StringVal("\x00"), FROMHEX(EVENT.get(ev, "id")))


# ---------------------------------------------------------------------------------------------------- transactions
class Txn:
    """an LMDB transaction object"""

    def __init__(self, write):
        self.write = write

    def __pyvc_getattr__(self, sx, attr, st, node):
        if attr in ("put", "delete"):
            def op(sx2, a, k, s, n, attr=attr):
                sx2.oblige(s, "%s/lmdb:%s-inside-open-write-transaction" % (sx2.cur_func, attr), s.ghost["wtxn_open"].term, "typestate", n, props=["C07"])
                key = sx2.deref(a[0], s)
                s2 = s.fork()
                ks = s.ghost["keys"]
                s.ghost["keys"] = Val(KEYS, z3.Store(ks.term, key.term, attr == "put"))
                s.ghost["n_" + attr] = Val(V.Int, s.ghost["n_" + attr].term + 1)
                s.ghost["last_key"] = key
                if attr == "put" and len(a) > 1:
                    s.ghost["last_value"] = sx2.deref(a[1], s)
                return [R(s, V.mk_bool(True)), R(s2, None, Exc("EngineError", exact=False))]
            return [R(st, Func(op, "txn." + attr))]
        if attr == "get":
            def get(sx2, a, k, s, n):
                key = sx2.deref(a[0], s)
                r = sx2.fresh(V.Opt(V.Bytes), "value", s)
                s.assume(z3.Not(V.Opt(V.Bytes).is_none(r.term)) == z3.Select(s.ghost["keys"].term, key.term))
                return [R(s, r)]
            return [R(st, Func(get, "txn.get"))]
        raise Unsupported("txn.%s" % attr, node)


class WriteTxnCM:
    def enter(self, sx, st, node):
        sx.oblige(st, "%s/lmdb:no-nested-write-transaction" % sx.cur_func, z3.Not(st.ghost["wtxn_open"].term), "typestate", node, props=["C07"])
        st.ghost["wtxn_open"] = V.mk_bool(True)
        st.ghost["keys_at_begin"] = st.ghost["keys"]
        st.ghost["rec_at_begin"] = st.ghost["rec"]
        st.ghost["n_wtxn"] = Val(V.Int, st.ghost["n_wtxn"].term + 1)
        s2 = st.fork()
        s2.ghost["wtxn_open"] = V.mk_bool(False)
        return [R(st, Conc(Txn(True))), R(s2, None, Exc("EngineError", exact=False))]

    def exit(self, sx, st, exc, node):
        st.ghost["wtxn_open"] = V.mk_bool(False)
        if exc is not None:
            st.ghost["keys"] = st.ghost["keys_at_begin"]
            st.ghost["rec"] = st.ghost["rec_at_begin"]
            st.ghost["n_aborts"] = Val(V.Int, st.ghost["n_aborts"].term + 1)
            return [R(st, False)]
        s2 = st.fork()
        s2.ghost["keys"] = s2.ghost["keys_at_begin"]
        s2.ghost["rec"] = s2.ghost["rec_at_begin"]
        st.ghost["n_commits"] = Val(V.Int, st.ghost["n_commits"].term + 1)
        return [R(st, False), R(s2, None, Exc("EngineError", exact=False))]


REG.ctx_managers.append((lambda m, st: isinstance(m, Conc) and isinstance(m.v, WriteTxnCM), lambda m: m.v))


class Env:
    def __pyvc_getattr__(self, sx, attr, st, node):
        if attr == "begin":
            return [R(st, Func(lambda sx2, a, k, s, n: [R(s, Conc(WriteTxnCM()))], "env.begin"))]
        raise Unsupported("env.%s" % attr, node)


def ghost_kv(sx, st):
    st.ghost["keys"] = sx.fresh(KEYS, "keys0", st)
    st.ghost["rec"] = sx.fresh(RECS, "rec0", st)
    st.ghost["keys_at_begin"] = st.ghost["keys"]
    st.ghost["rec_at_begin"] = st.ghost["rec"]
    st.ghost["wtxn_open"] = sx.fresh(V.Bool, "wtxn_open0", st)
    for g in ("n_put", "n_delete", "n_wtxn", "n_aborts", "n_commits", "n_enqueued", "n_broadcast_local", "n_broadcast_peers"):
        st.ghost[g] = V.mk_int(0)
    st.ghost["last_key"] = V.mk_bytes(b"")
    st.ghost["last_value"] = V.mk_bytes(b"")
    st.ghost["validated"] = V.mk_bool(False)
    st.ghost["save_authorized"] = V.mk_bool(False)
    st.ghost["constructed_event"] = sx.fresh(EVENT, "no_event", st)


@REG.model("has_key")
def _has_key(sx, args, kwargs, st, node):
    return [R(st, Val(V.Bool, z3.Select(args[0].term, args[1].term)))]


# ---------------------------------------------------------------------------------------------------- indexes
# KEYS_OF(index, event): the set of (un-suffixed) keys the index's convert() yields for the event -- each subclass's convert
# is verified against its own definition of this set (K_idx of DESIGN A.6); Index.write is verified against the abstract set.
INDEX = V.Opaque("Index")
KEYS_OF = REG.ufun("keys_of", [INDEX.sort(), EVENT.sort(), z3.StringSort()], z3.BoolSort())


class ConvertIter:
    """for key in self.convert(event): yields keys of KEYS_OF(self, event); when the loop ends every such key was yielded"""

    def __init__(self, idx, ev):
        self.idx, self.ev = idx, ev

    def __pyvc_iter__(self, sx, st, node):
        return ("opaque", self)

    def next(self, sx, st, k):
        key = sx.fresh(V.Bytes, "index_key", st)
        st.assume(KEYS_OF(self.idx.term, self.ev.term, key.term))
        vis = st.ghost["visited"]
        st.ghost["visited"] = Val(KEYS, z3.Store(vis.term, key.term, True))
        return [R(st, key)]

    def exhausted(self, sx, st):
        x = z3.String("cv_x")
        st.assume(z3.ForAll([x], z3.Implies(KEYS_OF(self.idx.term, self.ev.term, x), z3.Select(st.ghost["visited"].term, x))))


def _index_method(sx, obj, attr, args, kwargs, st, node):
    if attr == "convert":
        return [R(st, Conc(ConvertIter(obj, args[0])))]
    if attr in ("write", "clear"):
        return None
    return None


REG.hooks[("method", repr(INDEX))] = _index_method


@REG.model("keys_of")
def _keys_of(sx, args, kwargs, st, node):
    return [R(st, Val(V.Bool, KEYS_OF(args[0].term, args[1].term, args[2].term)))]


@REG.model("suffixed")
def _suffixed(sx, args, kwargs, st, node):
    """spec: suffixed(key, event) = key + 00 + created_at(4 bytes, big endian) + 00 + id bytes"""
    return [R(st, Val(V.Bytes, suffix(args[0].term, args[1].term)))]


class GetattrOp:
    """getattr(txn, operation): put or delete by name"""


def _getattr_dynamic(sx, o, name, st, node):
    if isinstance(o, Conc) and isinstance(o.v, Txn):
        nm = sx.deref(name, st)
        outs = []
        for cand in ("put", "delete"):
            s2 = st.fork().assume(nm.term == z3.StringVal(cand))
            if sx.feasible(s2):
                outs.extend(o.v.__pyvc_getattr__(sx, cand, s2, node))
        s3 = st.fork().assume(z3.And(nm.term != z3.StringVal("put"), nm.term != z3.StringVal("delete")))
        if sx.feasible(s3):
            outs.append(R(s3, None, Exc("AttributeError")))
        return outs
    return None


REG.getattr_dynamic = _getattr_dynamic


def setup_index_write(sx, st, params):
    st.ghost["visited"] = Val(KEYS, KEYS.empty())
    st.env["txn"] = Conc(Txn(True))
    for f in be4_facts(EVENT.get(params["event"].term, "created_at")):
        st.assume(f)


K0_TOUCHED = "exists(lambda k: keys_of(self, event, k) and k0 == suffixed(k, event), k=Bytes)"
index_write_contract = Contract(
    "Index.write", {"self": INDEX, "event": EVENT, "operation": V.Str, "k0": V.Bytes},
    requires=[("inside-write-transaction", "ghost('wtxn_open')"),
              ("operation-is-put-or-delete", "operation == 'put' or operation == 'delete'"),
              ("event-is-canonical", "fromhex_ok(event.id) and event.created_at >= 0 and event.created_at < 4294967296")],
    ensures=[
        # exactly the suffixed keys of this index for this event are put / deleted; every other key is untouched (k0 arbitrary)
        ("touches-exactly-the-events-keys-of-this-index",
         "has_key(ghost('keys'), k0) == ((operation == 'put') if (%s) else has_key(old(ghost('keys')), k0))" % K0_TOUCHED),
        ("records-untouched", "ghost('rec') == old(ghost('rec'))"),
    ],
    raises={"EngineError+": True},
    modifies=["ghost.keys", "ghost.n_put", "ghost.n_delete", "ghost.last_key", "ghost.last_value"],
)
index_write_contract.ghost_params = ("k0",)
index_write_contract.defaults = {"operation": V.mk_str("put")}
index_write = REG.unit(Unit(
    P, "Index.write", index_write_contract,
    loops={"self.convert(event)": LoopSpec("keys", index="_n", invariants=[
        ("written-so-far",
         "has_key(ghost('keys'), k0) == ((operation == 'put') if exists(lambda k: has_key(ghost('visited'), k) and k0 == suffixed(k, event), k=Bytes) else has_key(old(ghost('keys')), k0))"),
        ("visited-are-index-keys", "forall(lambda k: implies(has_key(ghost('visited'), k), keys_of(self, event, k)), k=Bytes)"),
        ("records-untouched", "ghost('rec') == old(ghost('rec')) and ghost('wtxn_open')"),
    ])},
    props=["C10", "C07"], ghost_init=ghost_kv, setup=setup_index_write,
    canaries=[("writes-nothing", "ghost('n_put') + ghost('n_delete') == 0")],
))
index_write.param_defaults = {"txn": lambda sx, st: Conc(Txn(True))}
index_write.ghost_havoc = lambda sx, body, st: [st.ghost.__setitem__(g, sx.fresh(st.ghost[g].ty, "g_" + g, st)) for g in ("keys", "visited", "n_put", "n_delete", "last_key", "last_value")]
index_write.obligation_props = [("lmdb:", ["C07"])]


# ---------------------------------------------------------------------------------------------------- key constructors
# to_key of each index (K_idx of DESIGN A.6): verified shapes; bytes_from_hex / str.encode are uninterpreted
REG.classes["TagIndex"] = {"prefix": lambda sx, st, name: V.mk_bytes(b"\x09")}
REG.classes["KindIndex"] = {"prefix": lambda sx, st, name: V.mk_bytes(b"\x02")}
REG.classes["CreatedIndex"] = {"prefix": lambda sx, st, name: V.mk_bytes(b"\x01")}
UTF8 = REG.ufun("utf8", [z3.StringSort()], z3.StringSort())


@REG.model("utf8")
def _utf8(sx, args, kwargs, st, node):
    return [R(st, Val(V.Bytes, UTF8(args[0].term)))]


@REG.model("be4")
def _be4(sx, args, kwargs, st, node):
    return [R(st, Val(V.Bytes, BE4(args[0].term)))]


TAGKEY = "b'\\x09' + utf8(value[0]) + b'\\x00' + utf8(value[1])"
REG.unit(Unit(
    P, "TagIndex.to_key",
    Contract("TagIndex.to_key", {"self": V.ObjT("TagIndex"), "value": V.Tuple(V.Str, V.Str)},
             ensures=[("tag-key-layout", "result == %s" % TAGKEY)], returns=V.Bytes),
    props=["C10"], canaries=[("empty-key", "len(result) == 0")],
))
for _cls, _pfx in (("KindIndex", "\\x02"), ("CreatedIndex", "\\x01")):
    REG.unit(Unit(
        P, "%s.to_key" % _cls,
        Contract("%s.to_key" % _cls, {"self": V.ObjT(_cls), "value": V.Int},
                 ensures=[("key-layout", "result == b'%s' + be4(value)" % _pfx)],
                 raises={"OverflowError": "value < 0 or value >= 4294967296"}, returns=V.Bytes),
        props=["C10"], canaries=[("empty-key", "len(result) == 0")],
    ))

# TagIndex.convert: exactly the indexable tags of the event, each under its own name and (stringified) value
INDEXABLE = "(len(event.tags[i]) >= 2 and (len(event.tags[i][0]) == 1 or event.tags[i][0] == 'expiration' or event.tags[i][0] == 'delegation'))"
KEY_I = "b'\\x09' + utf8(event.tags[i][0]) + b'\\x00' + utf8(event.tags[i][1])"
tag_convert = REG.unit(Unit(
    P, "TagIndex.convert",
    Contract("TagIndex.convert", {"self": V.ObjT("TagIndex"), "event": EVENT},
             requires=[("tags-nonempty-items", "all_range(0, len(event.tags), lambda i: len(event.tags[i]) >= 1)")],
             ensures=[("generator-ends", "True")], raises={}),
    loops={"event.tags": LoopSpec("tags", index="_t", invariants=[], iter_post=[
        # per tag: an indexable tag yields exactly its own key, any other tag yields nothing
        ("yields-exactly-the-tags-own-key",
         "(len(ghost('yielded')) == len(head_yielded) + 1 and ghost('yielded')[len(head_yielded)] == b'\\x09' + utf8(tag[0]) + b'\\x00' + utf8(tag[1]) "
         " and len(tag) >= 2 and (len(tag[0]) == 1 or tag[0] == 'expiration' or tag[0] == 'delegation'))"
         " if (len(tag) >= 2 and (len(tag[0]) == 1 or tag[0] == 'expiration' or tag[0] == 'delegation')) else len(ghost('yielded')) == len(head_yielded)"),
    ])},
    props=["C10"], canaries=[("yields-nothing", "len(ghost('yielded')) == 0")],
))
tag_convert.yield_type = V.Bytes
tag_convert.ghost_havoc = lambda sx, body, st: st.ghost.__setitem__("yielded", sx.fresh(st.ghost["yielded"].ty, "g_yielded", st))


# ---------------------------------------------------------------------------------------------------- LMDBStorage.add_event
REG.classes["LMDBStorage"] = {
    "log": lambda sx, st, name: LOGGER,
    "authenticator": V.ObjT("KVAuthenticator"),
    "writer_queue": lambda sx, st, name: Conc(WriterQueue()),
    "__frozen__": ("authenticator",),
}
REG.classes["KVAuthenticator"] = {}


@REG.method("KVAuthenticator", "can_do", frame=[])
def _kv_can_do(sx, args, kwargs, st, node):
    r = sx.fresh(V.Bool, "can_save", st)
    act = z3.simplify(args[2].term)
    on_event = sx.eq(args[3], st.ghost["constructed_event"], st) if len(args) > 3 else z3.BoolVal(False)
    if z3.is_string_value(act) and act.as_string() == "save":
        st.ghost["save_authorized"] = Val(V.Bool, z3.And(r.term, on_event))
    return [R(st, r)]


@REG.method("LMDBStorage", "validate_event", frame=[])
def _kv_validate(sx, args, kwargs, st, node):
    ok = sx.eq(args[1], st.ghost["constructed_event"], st)
    s2, s3 = st.fork(), st.fork()
    st.ghost["validated"] = Val(V.Bool, ok)
    return [R(st, NONE), R(s2, None, Exc("StorageError", sx.fresh(V.Str, "reason", s2))),
            R(s3, None, Exc("Exception", exact=False, excluding=("StorageError", "AuthenticationError")))]


class WriterQueue:
    """the writer thread's SimpleQueue: put(("add", [event])) hands the event to WriterThread.run"""

    def __pyvc_getattr__(self, sx, attr, st, node):
        if attr == "put":
            def put(sx2, a, k, s, n):
                item = a[0]
                ok_shape = isinstance(item, Conc) and isinstance(item.v, tuple) and len(item.v) == 2
                ev_ok = z3.BoolVal(False)
                if ok_shape:
                    op, lst = item.v
                    opv = z3.simplify(sx2.lift(op).term if isinstance(op, Conc) else op.term)
                    if z3.is_string_value(opv) and opv.as_string() == "add":
                        l = sx2.deref(lst, s)
                        if isinstance(l, Val) and isinstance(l.ty, V.List):
                            ev_ok = z3.And(l.ty.n(l.term) == 1, l.ty.at(l.term, 0) == s.ghost["constructed_event"].term)
                sx2.oblige(s, "%s/enqueue:only-validated-event" % sx2.cur_func, z3.And(s.ghost["validated"].term, ev_ok), "typestate", n, props=["C03", "C16"])
                sx2.oblige(s, "%s/enqueue:only-authorized-event" % sx2.cur_func, s.ghost["save_authorized"].term, "typestate", n, props=["C14"])
                s.ghost["n_enqueued"] = Val(V.Int, s.ghost["n_enqueued"].term + 1)
                return [R(s, NONE)]
            return [R(st, Func(put, "writer_queue.put"))]
        raise Unsupported("writer_queue.%s" % attr, node)


@REG.method("LMDBStorage", "post_save", frame=[])
def _kv_post_save_call(sx, args, kwargs, st, node):
    """LMDBStorage.post_save = notify_all_connected + notify_other_processes (two lines; broadcast typestate checked here)"""
    ev_ok = sx.eq(args[1], st.ghost["constructed_event"], st)
    sx.oblige(st, "%s/broadcast:only-validated" % sx.cur_func, z3.And(st.ghost["validated"].term, ev_ok), "typestate", node, props=["C03", "C16"])
    sx.oblige(st, "%s/broadcast:only-authorized" % sx.cur_func, st.ghost["save_authorized"].term, "typestate", node, props=["C14"])
    st.ghost["n_broadcast_local"] = Val(V.Int, st.ghost["n_broadcast_local"].term + 1)
    return [R(st, NONE)]


CE = "ghost('constructed_event')"
kv_add_event = REG.unit(Unit(
    P, "LMDBStorage.add_event",
    Contract("LMDBStorage.add_event", {"self": V.ObjT("LMDBStorage"), "event_json": V.Json, "auth_token": V.Opt(TOKEN)},
             ensures=[
                 ("accepted-only-validated-and-authorized", "ghost('validated') and ghost('save_authorized')"),
                 ("returns-the-submitted-event", "result[0] == %s" % CE),
                 # ephemeral events bypass storage but are broadcast; everything else is handed to the writer exactly once
                 ("enqueued-once-unless-ephemeral", "ghost('n_enqueued') == (0 if %s.is_ephemeral else 1)" % CE),
                 ("broadcast-once", "ghost('n_broadcast_local') == 1"),
                 # C06: an already stored event is answered as a duplicate and not broadcast again
                 ("duplicate-not-reacknowledged",
                  "implies(ghost('rec')[bytes.fromhex(%s.id)] is not None, result[1] == False)" % CE),
             ],
             raises={"StorageError": True, "AuthenticationError": True, "Exception+": True},
             exc_ensures={k: [("refused-event-leaves-no-trace", "ghost('n_enqueued') == 0 and ghost('n_broadcast_local') == 0")]
                          for k in ("StorageError", "AuthenticationError", "Exception+")}),
    props=["C03", "C05", "C14", "C16", "C06", "C17", "C19"], ghost_init=ghost_kv,
    canaries=[("never-accepts", "False")],
))
kv_add_event.obligation_props = [
    ("enqueue:only-validated", ["C03", "C16"]), ("enqueue:only-authorized", ["C14"]), ("broadcast:only-validated", ["C03", "C16"]),
    ("broadcast:only-authorized", ["C14"]), ("post:accepted-only", ["C03", "C14", "C16"]), ("post:enqueued-once", ["C06", "C17"]),
    ("post:broadcast-once", ["C06", "C05"]), ("post:returns", ["C06"]), ("post:duplicate-not", ["C06"]), ("excpost:", ["C06"]), ("exc:", ["C19"]),
]


# ---------------------------------------------------------------------------------------------------- WriterThread
# every write index is written (cleared) exactly once per added (deleted) event, inside the one write transaction
IDXCALLS = V.Map(INDEX, V.Int)


class TaskArgs:
    def __init__(self, first):
        self.first = first

    def __pyvc_getitem__(self, sx, k, st, node):
        kk = z3.simplify(k.term)
        if z3.is_int_value(kk) and kk.as_long() == 0:
            return [R(st, self.first)]
        raise Unsupported("task args index", node)


class TaskQueue:
    """WriterThread.queue (SimpleQueue): get() blocks for the next task -- None (shutdown), ("add", [event]) with an event
    that passed admission (canonical), ("del", [hex id]), or a maintenance task"""

    def __pyvc_getattr__(self, sx, attr, st, node):
        if attr == "get":
            return [R(st, Func(self.get, "queue.get"))]
        if attr == "qsize":
            return [R(st, Func(lambda sx2, a, k, s, n: [R(s, sx2.fresh(V.Int, "qsize", s))], "queue.qsize"))]
        raise Unsupported("queue.%s" % attr, node)

    def get(self, sx, args, kwargs, st, node):
        outs = [R(st.fork(), NONE)]
        s1 = st.fork()
        ev = sx.fresh(EVENT, "task_event", s1)
        s1.assume(z3.InRe(EVENT.get(ev.term, "id"), z3.Star(z3.Union(z3.Range("0", "9"), z3.Range("a", "f")))))
        s1.assume(z3.Length(EVENT.get(ev.term, "id")) == 64)
        s1.ghost["op_event"] = ev
        s1.ghost["op_kind"] = V.mk_str("add")
        s1.ghost["n_tasks"] = Val(V.Int, s1.ghost["n_tasks"].term + 1)
        s1.ghost["idx_args_ok"] = V.mk_bool(True)   # per-task flag
        for g_from, g_to in (("writes", "writes_at_task"), ("n_commits", "commits_at_task"), ("post_save_calls", "ps_at_task")):
            if g_from in s1.ghost:
                s1.ghost[g_to] = s1.ghost[g_from]
        outs.append(R(s1, Conc((V.mk_str("add"), Conc(TaskArgs(ev))))))
        s2 = st.fork()
        hid = sx.fresh(V.Str, "del_id", s2)
        s2.ghost["op_kind"] = V.mk_str("del")
        s2.ghost["n_tasks"] = Val(V.Int, s2.ghost["n_tasks"].term + 1)
        outs.append(R(s2, Conc((V.mk_str("del"), Conc(TaskArgs(hid))))))
        return outs


@REG.model("get_event_data")
def _get_event_data(sx, args, kwargs, st, node):
    """get_event_data(txn, id) (own 4 lines; msgpack ASSUMED): the unpacked primary record or None"""
    key = sx.deref(args[1], st)
    rec = st.ghost["rec"]
    r = Val(V.Opt(EVENT), z3.Select(rec.term, key.term))
    return [R(st, r)]


@REG.model("decode_event")
def _decode_event(sx, args, kwargs, st, node):
    """decode_event(data): the Event rebuilt from the record (round trip of a canonical event, ASSUMED with msgpack)"""
    return [R(st, args[0])]
REG.classes["WriterThread"] = {
    "write_indexes": V.List(INDEX), "env": lambda sx, st, name: Conc(Env()), "running": V.Bool, "processing": V.Bool,
    "stat_collector": lambda sx, st, name: Conc(StatCollector()), "queue": lambda sx, st, name: Conc(TaskQueue()),
    "__frozen__": ("write_indexes",),
}


def _index_write_call(sx, obj, attr, args, kwargs, st, node):
    """index.write(event, txn) / index.clear(event, txn) on a member of write_indexes (contract: Index.write, verified above)"""
    if attr == "convert":
        return [R(st, Conc(ConvertIter(obj, args[0])))]
    if attr in ("write", "clear"):
        g = "writes" if attr == "write" else "clears"
        m = st.ghost[g]
        st.ghost[g] = Val(IDXCALLS, z3.Store(m.term, obj.term, z3.Select(m.term, obj.term) + 1))
        ev_ok = sx.eq(args[0], st.ghost["op_event"], st)
        st.ghost["idx_args_ok"] = Val(V.Bool, z3.And(st.ghost["idx_args_ok"].term, ev_ok, st.ghost["wtxn_open"].term))
        return [R(st, NONE), R(st.fork(), None, Exc("EngineError", exact=False)), R(st.fork(), None, Exc("OverflowError"))]
    return None


REG.hooks[("method", repr(INDEX))] = _index_write_call


def ghost_writer(sx, st):
    ghost_kv(sx, st)
    st.ghost["writes"] = sx.fresh(IDXCALLS, "writes0", st)
    st.ghost["clears"] = sx.fresh(IDXCALLS, "clears0", st)
    st.ghost["idx_args_ok"] = V.mk_bool(True)
    st.ghost["op_event"] = sx.fresh(EVENT, "op_event", st)
    st.ghost["visited"] = Val(KEYS, KEYS.empty())


def setup_delete(sx, st, params):
    st.ghost["op_event"] = params["event"]
    st.env["txn"] = Conc(Txn(True))
    st.env["log"] = LOGGER
    wi = st.getcell(st.getcell(params["self"].cell)["write_indexes"].cell)
    t = wi.ty
    i, j = z3.Int("di"), z3.Int("dj")
    # the index objects in write_indexes are pairwise distinct (INDEXES.values())
    st.assume(z3.ForAll([i, j], z3.Implies(z3.And(0 <= i, i < j, j < t.n(wi.term)), t.at(wi.term, i) != t.at(wi.term, j))))


IN_LIST = "any_range(0, len(self.write_indexes), lambda i: self.write_indexes[i] == x0)"
delete_event = REG.unit(Unit(
    P, "WriterThread._delete_event",
    Contract("WriterThread._delete_event", {"self": V.ObjT("WriterThread"), "event": EVENT, "x0": INDEX},
             requires=[("inside-write-transaction", "ghost('wtxn_open')")],
             ensures=[
                 # every write index clears this event exactly once (x0 arbitrary), with this event, inside the transaction
                 ("every-write-index-cleared-once", "ghost('clears')[x0] == old(ghost('clears'))[x0] + (1 if %s else 0)" % IN_LIST),
                 ("cleared-with-this-event-in-this-transaction", "ghost('idx_args_ok')"),
                 ("nothing-written", "ghost('writes')[x0] == old(ghost('writes'))[x0]"),
             ],
             raises={"EngineError+": True, "OverflowError": True}),
    loops={1: LoopSpec("indexes", index="_i", invariants=[
        ("cleared-so-far", "ghost('clears')[x0] == old(ghost('clears'))[x0] + (1 if any_range(0, _i, lambda q: self.write_indexes[len(self.write_indexes) - 1 - q] == x0) else 0)"),
        ("args-ok", "ghost('idx_args_ok') and ghost('wtxn_open')"),
        ("nothing-written", "ghost('writes')[x0] == old(ghost('writes'))[x0]"),
    ])},
    props=["C10"], ghost_init=ghost_writer, setup=setup_delete,
    canaries=[("clears-nothing", "ghost('clears')[x0] == old(ghost('clears'))[x0]")],
))
delete_event.contract.ghost_params = ("x0",)
delete_event.param_defaults = {"txn": lambda sx, st: Conc(Txn(True)), "log": lambda sx, st: LOGGER}
delete_event.ghost_havoc = lambda sx, body, st: [st.ghost.__setitem__(g, sx.fresh(st.ghost[g].ty, "g_" + g, st)) for g in ("clears", "writes", "idx_args_ok", "keys", "rec")]


# ---- WriterThread.run: the writer loop -------------------------------------------------------------------
@REG.method("WriterThread", "_post_save", frame=None)
def _run_post_save(sx, args, kwargs, st, node):
    """self._post_save(txn, event, counter, log) (own contract below): supersession / NIP-09 deletions inside the same transaction"""
    ok = z3.And(sx.eq(args[2], st.ghost["op_event"], st), st.ghost["wtxn_open"].term)
    st.ghost["post_save_calls"] = Val(V.Int, st.ghost["post_save_calls"].term + 1)
    st.ghost["idx_args_ok"] = Val(V.Bool, z3.And(st.ghost["idx_args_ok"].term, ok))
    return [R(st, NONE), R(st.fork(), None, Exc("Exception", exact=False))]


@REG.method("WriterThread", "_delete_event", frame=None)
def _run_delete_event(sx, args, kwargs, st, node):
    """self._delete_event(txn, event, log) (own contract above)"""
    st.ghost["delete_calls"] = Val(V.Int, st.ghost["delete_calls"].term + 1)
    st.ghost["idx_args_ok"] = Val(V.Bool, z3.And(st.ghost["idx_args_ok"].term, st.ghost["wtxn_open"].term))
    return [R(st, NONE), R(st.fork(), None, Exc("Exception", exact=False))]


def ghost_run(sx, st):
    ghost_writer(sx, st)
    st.ghost["wtxn_open"] = V.mk_bool(False)
    st.ghost["op_kind"] = V.mk_str("")
    st.ghost["n_tasks"] = V.mk_int(0)
    st.ghost["post_save_calls"] = V.mk_int(0)
    st.ghost["delete_calls"] = V.mk_int(0)
    st.ghost["writes_at_task"] = st.ghost["writes"]
    st.ghost["commits_at_task"] = V.mk_int(0)
    st.ghost["ps_at_task"] = V.mk_int(0)


def _run_havoc(sx, body, st):
    import ast as _ast
    text = " ".join(_ast.unparse(b) for b in body)
    if "qget" not in text:
        # the inner loop over write_indexes only calls index.write
        for g in ("writes", "idx_args_ok"):
            st.ghost[g] = sx.fresh(st.ghost[g].ty, "g_" + g, st)
        return
    for g, v in list(st.ghost.items()):
        if g.startswith("__") or not isinstance(v, Val) or isinstance(v, (Ref, Func, Conc)) or v.term is None:
            continue
        st.ghost[g] = sx.fresh(v.ty, "g_" + g, st)


IS_ADD = "(ghost('n_tasks') == head_n_tasks + 1 and ghost('op_kind') == 'add')"
X_IN = "any_range(0, len(self.write_indexes), lambda i: self.write_indexes[i] == x0)"
writer_run = REG.unit(Unit(
    P, "WriterThread.run",
    Contract("WriterThread.run", {"self": V.ObjT("WriterThread"), "x0": INDEX, "k0": V.Bytes},
             # object invariant from __init__: write_indexes lists the distinct index objects of INDEXES
             requires=[("indexes-distinct", "forall(lambda i, j: implies(0 <= i and i < j and j < len(self.write_indexes), self.write_indexes[i] != self.write_indexes[j]))")],
             ensures=[("loop-ends-only-on-shutdown", "True")],
             raises={}),   # C07: a failure while applying one task never escapes the writer loop
    loops={
        "self.running": LoopSpec("tasks", index="_t", invariants=[
            ("no-transaction-left-open", "not ghost('wtxn_open')"),
            ("indexes-distinct", "forall(lambda i, j: implies(0 <= i and i < j and j < len(self.write_indexes), self.write_indexes[i] != self.write_indexes[j]))"),
        ], iter_post=[
            # C07: one write transaction per task; if anything fails the transaction is aborted: no key changed
            ("one-transaction-per-task", "ghost('n_wtxn') <= head_n_wtxn + 1 and not ghost('wtxn_open')"),
            ("failed-task-changes-nothing",
             "implies(ghost('n_aborts') > head_n_aborts or ghost('n_commits') == head_n_commits, has_key(ghost('keys'), k0) == has_key(head_keys, k0))"),
            # C10: a committed 'add' of a new event wrote every write index exactly once, with that event, in that transaction
            ("committed-add-writes-every-index-once",
             "implies(%s and ghost('n_commits') == head_n_commits + 1 and ghost('post_save_calls') == head_post_save_calls + 1, "
             "ghost('writes')[x0] == head_writes[x0] + (1 if %s else 0) and ghost('idx_args_ok'))" % (IS_ADD, X_IN)),
            ("processing-flag-cleared", "implies(_exit != 'break', self.processing == False)"),
            ("never-escapes", "_exit != 'raise'"),
        ]),
        "self.write_indexes": LoopSpec("indexes", index="_i", invariants=[
            ("written-so-far", "ghost('writes')[x0] == ghost('writes_at_task')[x0] + (1 if any_range(0, _i, lambda q: self.write_indexes[q] == x0) else 0)"),
            ("args-ok", "ghost('idx_args_ok') and ghost('wtxn_open')"),

        ]),
    },
    props=["C10", "C07", "C06"], ghost_init=ghost_run,
    canaries=[("never-returns", "False")],
))
writer_run.contract.ghost_params = ("x0", "k0")
writer_run.ghost_havoc = _run_havoc
writer_run.param_defaults = {}
writer_run.loop_locals = {}


# ---------------------------------------------------------------------------------------------------- d_value, _post_save (C09 / C08 on LMDB)
from . import db as _db  # noqa: E402  (first_d_is / dvalue vocabulary)

REG.unit(Unit(
    P, "d_value",
    Contract("d_value", {"event": EVENT},
             requires=[("tags-nonempty-items", "all_range(0, len(event.tags), lambda i: len(event.tags[i]) >= 1)")],
             ensures=[("is-the-nip33-d-value", "first_d_is(event.tags, result)"), ("is-the-d-value-function", "result == dvalue(event.tags)")],
             returns=V.Str, pure=True),
    loops={"event.tags": LoopSpec("tags", index="_t", invariants=[("no-d-tag-so-far", "all_range(0, _t, lambda i: event.tags[i][0] != 'd')")])},
    props=["C09"], canaries=[("always-empty", "result == ''")],
))


class EventScanner:
    """`with INDEXES[name].scanner(txn, matches, until=T) as scanner: for event_id in scanner`  -- event-level contract of the
    index scanner, i.e. its key-level soundness (Index.scanner unit: every yielded id comes from a key with the requested prefix
    and a timestamp <= until) lifted through index coherence (C10: such a key belongs to the stored event with that id) and the
    injectivity of the key encodings (ASSUMED): every yielded id is the id of a STORED event with the requested attribute values
    and created_at <= until.  Nothing is claimed about completeness here (bounded check)."""

    def __init__(self, index_name, matches, until):
        self.index_name, self.matches, self.until = index_name, matches, until

    def enter(self, sx, st, node):
        return [R(st, Conc(self)), R(st.fork(), None, Exc("ValueError")), R(st.fork(), None, Exc("OverflowError"))]

    def exit(self, sx, st, exc, node):
        return [R(st, False)]

    def __pyvc_iter__(self, sx, st, node):
        return ("opaque", self)

    def next(self, sx, st, k):
        eid = sx.fresh(V.Bytes, "scanned_id", st)
        t = V.Opt(EVENT)
        r = z3.Select(st.ghost["rec"].term, eid.term)
        st.assume(z3.Not(t.is_none(r)))
        e = t.get(r)
        st.assume(FROMHEX(EVENT.get(e, "id")) == eid.term)
        st.assume(z3.Length(eid.term) == 32)
        m = self.matches
        if self.index_name == "authorkinds":
            pk, kind = m
            st.assume(EVENT.get(e, "pubkey") == pk.term)
            st.assume(EVENT.get(e, "kind") == kind.term)
        elif self.index_name == "authors":
            st.assume(EVENT.get(e, "pubkey") == m[0].term)
        if self.until is not None:
            st.assume(EVENT.get(e, "created_at") <= self.until.term)
        for w in EVENT.wellformed(e):
            st.assume(w)
        i = z3.Int("ps_i")
        tg = EVENT.get(e, "tags")
        st.assume(z3.ForAll([i], z3.Implies(z3.And(i >= 0, i < TAGS.n(tg)), TAGS.elem.n(TAGS.at(tg, i)) >= 1)))   # stored events are canonical
        return [R(st, eid)]


class IndexModel:
    def __init__(self, name):
        self.name = name

    def __pyvc_getattr__(self, sx, attr, st, node):
        if attr == "scanner":
            def scanner(sx2, a, k, s, n):
                matches = sx2.deref(a[1], s)
                if not (isinstance(matches, Val) and isinstance(matches.ty, V.List)):
                    raise Unsupported("scanner matches", n)
                first = Val(matches.ty.elem, matches.ty.at(matches.term, 0))
                if isinstance(first.ty, V.Tuple):
                    m = [Val(t, first.ty.field(first.term, i)) for i, t in enumerate(first.ty.items)]
                else:
                    m = [first]
                until = k.get("until")
                until = sx2.lift(until) if isinstance(until, Conc) else until
                return [R(s, Conc(EventScanner(self.name, m, until)))]
            return [R(st, Func(scanner, "index.scanner"))]
        raise Unsupported("INDEXES[%s].%s" % (self.name, attr), node)


REG.globals["INDEXES"] = Conc({n: Conc(IndexModel(n)) for n in ("ids", "created_at", "kinds", "authors", "authorkinds", "tags", "search")})
REG.ctx_managers.append((lambda m, st: isinstance(m, Conc) and isinstance(m.v, EventScanner), lambda m: m.v))


@REG.model("bytes_from_hex")
def _bytes_from_hex(sx, args, kwargs, st, node):
    """kv.bytes_from_hex (6 lines; ASSUMED equal to bytes.fromhex on well-formed hex; odd-length retry not modelled)"""
    from .common import fromhex
    return fromhex(sx, sx.deref(args[0], st).term, st)


def _ps_delete(sx, args, kwargs, st, node):
    """self._delete_event(txn, candidate, log) inside _post_save: the FRAME obligations of C09 / C08 are checked here"""
    cand = sx.deref(args[1], st)
    if isinstance(cand.ty, V.Opt):
        cand = Val(cand.ty.inner, cand.ty.get(cand.term))
    ev = st.ghost["op_event"]
    c, e = cand.term, ev.term
    same_author = EVENT.get(c, "pubkey") == EVENT.get(e, "pubkey")
    kind = EVENT.get(e, "kind")
    repl = z3.Or(kind == 0, kind == 3, z3.And(kind >= 10000, kind < 20000), z3.And(kind >= 30000, kind < 40000))
    param = z3.And(kind >= 30000, kind < 40000)
    dv = REG.models["dvalue"]
    dc = dv(sx, [Val(TAGS, EVENT.get(c, "tags"))], {}, st, node)[0].val.term
    de = dv(sx, [Val(TAGS, EVENT.get(e, "tags"))], {}, st, node)[0].val.term
    i = z3.Int("ps_e")
    tg = EVENT.get(e, "tags")
    referenced = z3.Exists([i], z3.And(i >= 0, i < TAGS.n(tg), TAGS.elem.at(TAGS.at(tg, i), 0) == z3.StringVal("e"),
                                       FROMHEX(TAGS.elem.at(TAGS.at(tg, i), 1)) == FROMHEX(EVENT.get(c, "id"))))
    frame9 = z3.And(same_author, EVENT.get(c, "kind") == kind, EVENT.get(c, "created_at") <= EVENT.get(e, "created_at"),
                    FROMHEX(EVENT.get(c, "id")) != FROMHEX(EVENT.get(e, "id")), z3.Implies(param, dc == de))
    frame8 = z3.And(same_author, referenced, EVENT.get(c, "created_at") < EVENT.get(e, "created_at"))
    sx.oblige(st, "%s/delete:only-superseded-version-or-own-referenced-event" % sx.cur_func,
              z3.If(kind == 5, frame8, z3.And(repl, frame9)), "typestate", node)
    sx.oblige(st, "%s/delete:inside-the-write-transaction" % sx.cur_func, st.ghost["wtxn_open"].term, "typestate", node, props=["C07"])
    st.ghost["delete_calls"] = Val(V.Int, st.ghost["delete_calls"].term + 1)
    failed = st.fork()
    failed.ghost["kv_failed"] = V.mk_bool(True)     # C07/C10: a failed deletion must abort the write transaction, not be swallowed
    return [R(st, NONE), R(failed, None, Exc("EngineError", exact=False))]


def setup_post_save(sx, st, params):
    st.env["txn"] = Conc(Txn(True))
    st.env["log"] = LOGGER
    t = V.Dict(V.Str, V.Int)
    st.env["counter"] = Ref(t, st.alloc(Val(t, t.put(t.empty(), z3.StringVal("count"), z3.IntVal(0)))))
    st.ghost["delete_calls"] = V.mk_int(0)
    st.ghost["kv_failed"] = V.mk_bool(False)
    st.ghost["op_event"] = params["event"]
    st.getcell(params["self"].cell)["_delete_event"] = Func(_ps_delete, "_delete_event")


post_save_kv = REG.unit(Unit(
    P, "WriterThread._post_save",
    Contract("WriterThread._post_save", {"self": V.ObjT("WriterThread"), "event": EVENT},
             requires=[("inside-write-transaction", "ghost('wtxn_open')"),
                       ("event-is-canonical", "fromhex_ok(event.id) and fromhex_ok(event.pubkey) and all_range(0, len(event.tags), lambda i: len(event.tags[i]) >= 1)")],
             ensures=[("regular-events-delete-nothing",
                       "implies(not (event.kind == 0 or event.kind == 3 or event.kind == 5 or event.is_replaceable or event.is_paramaterized_replaceable), ghost('delete_calls') == 0)"),
                      # a deletion that failed part-way leaves index entries without their record (C10) and a half-applied event (C07):
                      # the failure has to escape so that the writer aborts the whole transaction
                      ("no-failed-deletion-swallowed", "not ghost('kv_failed')")],
             raises={"EngineError+": True, "ValueError": True, "OverflowError": True, "IndexError": True}),
    loops={},
    props=["C09", "C08", "C07", "C10"], ghost_init=ghost_writer, setup=setup_post_save,
    canaries=[("never-deletes", "ghost('delete_calls') == 0")],
))
REG.frames["_delete_event"] = []   # touches only the keyspace ghost, no python object
post_save_kv.loops = {
    1: LoopSpec("superseded", index="_a", invariants=[("counter", "'count' in counter"), ("no-failure-swallowed", "not ghost('kv_failed')")]),
    2: LoopSpec("deleted", index="_b", invariants=[("counter", "'count' in counter"), ("no-failure-swallowed", "not ghost('kv_failed')")]),
}
post_save_kv.param_defaults = {"txn": lambda sx, st: Conc(Txn(True)), "log": lambda sx, st: LOGGER,
                               "counter": lambda sx, st: st.env.get("counter")}
post_save_kv.ghost_havoc = lambda sx, body, st: [st.ghost.__setitem__(g, sx.fresh(st.ghost[g].ty, "g_" + g, st)) for g in ("delete_calls", "kv_failed")]
post_save_kv.obligation_props = [("delete:inside", ["C07"]), ("delete:only", ["C09", "C08"]), ("no-failed-deletion-swallowed", ["C07", "C10"]), ("no-failure-swallowed", ["C07", "C10"])]


# ---------------------------------------------------------------------------------------------------- execute_one_plan (C12)
REG.classes["QueryPlan"] = {"limit": V.Opt(V.Int), "since": V.Opt(V.Int), "until": V.Opt(V.Int), "stats": V.Dict(V.Str, V.Real),
                            "query": V.Opaque("QueryItems"), "index": lambda sx, st, name: Conc(PlanIndex()), "matches": V.Opaque("Matches"),
                            "__frozen__": ("limit", "since", "until", "query", "index", "matches")}


class PlanIndex:
    def __pyvc_getattr__(self, sx, attr, st, node):
        if attr == "scanner":
            return [R(st, Func(lambda sx2, a, k, s, n: [R(s, Conc(IdScanner()))], "plan.index.scanner"))]
        raise Unsupported("plan.index.%s" % attr, node)


class IdScanner:
    """context manager of an index scan (own unit: Index.scanner); yields candidate ids"""

    def enter(self, sx, st, node):
        return [R(st, Conc(self)), R(st.fork(), None, Exc("Exception", exact=False))]

    def exit(self, sx, st, exc, node):
        return [R(st, False)]


class ReadTxnCM:
    def enter(self, sx, st, node):
        return [R(st, Conc(Txn(False))), R(st.fork(), None, Exc("EngineError", exact=False))]

    def exit(self, sx, st, exc, node):
        return [R(st, False)]


class ReadEnv:
    def __pyvc_getattr__(self, sx, attr, st, node):
        if attr == "begin":
            return [R(st, Func(lambda sx2, a, k, s, n: [R(s, Conc(ReadTxnCM()))], "env.begin"))]
        raise Unsupported("env.%s" % attr, node)


REG.ctx_managers.append((lambda m, st: isinstance(m, Conc) and isinstance(m.v, (IdScanner, ReadTxnCM)), lambda m: m.v))


class MatchedEvents:
    """matcher(txn, scanner, query_items, stats) (own unit): yields stored events that satisfy the residual predicate"""

    def __pyvc_iter__(self, sx, st, node):
        return ("opaque", self)

    def next(self, sx, st, k):
        ev = sx.fresh(EVENT, "matched", st)
        st.ghost["n_matched"] = Val(V.Int, st.ghost["n_matched"].term + 1)
        return [R(st, ev), R(st.fork(), None, Exc("Exception", exact=False))]


@REG.model("matcher")
def _matcher(sx, args, kwargs, st, node):
    return [R(st, Conc(MatchedEvents()))]


def ghost_plan(sx, st):
    st.ghost["n_matched"] = V.mk_int(0)
    st.ghost["clock"] = sx.fresh(V.Real, "clock0", st)


EVLIST = V.List(EVENT)
execute_one_plan = REG.unit(Unit(
    P, "execute_one_plan",
    Contract("execute_one_plan", {"plan": V.ObjT("QueryPlan")},
             ensures=[
                 # C12: never more than the plan's limit (which planner caps at max_limit), never more than what matched
                 ("at-most-limit-events", "implies(plan.limit is not None and plan.limit >= 0, len(result[1]) <= plan.limit)"),
                 ("only-matched-events", "len(result[1]) <= ghost('n_matched')"),
                 ("returns-its-plan", "True"),
             ],
             raises={}),   # C19: a failing scan is logged, the (partial) answer is still returned
    loops={1: LoopSpec("matches", index="_m", invariants=[
        ("count-is-len", "count == len(events) and count >= 0"),
        ("below-limit", "implies(limit is not None and limit >= 0, count <= limit)"),
        ("only-matched", "len(events) <= ghost('n_matched')"),
        ("limit-is-plan-limit", "limit == plan.limit"),
    ])},
    props=["C12", "C19"], ghost_init=ghost_plan,
    canaries=[("returns-nothing", "len(result[1]) == 0")],
))
execute_one_plan.param_defaults = {"lmdb_environment": lambda sx, st: Conc(ReadEnv()), "log": lambda sx, st: LOGGER}
execute_one_plan.local_types = {"events": EVLIST}
execute_one_plan.ghost_havoc = lambda sx, body, st: st.ghost.__setitem__("n_matched", sx.fresh(V.Int, "g_n_matched", st))


# ---------------------------------------------------------------------------------------------------- Subscription.run_query (LMDB)
from .db import CountingQueue, ghost_runq  # noqa: E402
from .base import CLIENT  # noqa: E402

REG.classes["KVSub"] = {
    "log": lambda sx, st, name: LOGGER, "sub_id": V.Str, "client_id": CLIENT, "auth_token": V.Opt(TOKEN), "query": V.Opaque("QueryPlans"),
    "queue": lambda sx, st, name: Conc(CountingQueue()), "storage": V.ObjT("KVSubStorage"),
    "__frozen__": ("sub_id", "client_id", "queue", "storage", "query"),
}
REG.classes["KVSubStorage"] = {"check_output": V.Opt(V.Opaque("OutputValidator")), "stat_collector": lambda sx, st, name: Conc(StatCollector()),
                               "db": V.Opaque("Env"), "query_pool": V.Opaque("Pool"), "loop": V.Opaque("Loop"), "__frozen__": ("check_output",)}


class PlanResults:
    """executor(env, plans, pool, ...) (ASSUMED; runs execute_one_plan per plan in the thread pool): yields (plan, events)"""

    def __pyvc_iter__(self, sx, st, node):
        return ("opaque", self)

    def next(self, sx, st, k):
        evs = sx.fresh(V.List(EVENT), "plan_events", st)
        return [R(st, Conc((sx.fresh(V.Opaque("Plan"), "plan", st), evs))), R(st.fork(), None, Exc("Exception", exact=False)),
                R(st.fork(), None, Exc("CancelledError"))]


@REG.model("executor")
def _executor(sx, args, kwargs, st, node):
    return [R(st, Conc(PlanResults()))]


@REG.model("QueryPlans")
def _queryplans(sx, args, kwargs, st, node):
    return [R(st, Ref(V.List(V.Opaque("Plan")), st.alloc(Val(V.List(V.Opaque("Plan")), V.List(V.Opaque("Plan")).empty()))))]


@REG.model("analyze")
def _analyze(sx, args, kwargs, st, node):
    return [R(st, NONE)]


def setup_kv_runq(sx, st, params):
    so = st.getcell(params["self"].cell)
    st.ghost["own_sub_id"] = so["sub_id"]
    st.ghost["check_output"] = st.getcell(so["storage"].cell)["check_output"]


_NOEOSE = [("no-eose-yet", "ghost('n_eose_put') == 0"), ("counter", "'count' in counter")]
run_query_kv = REG.unit(Unit(
    P, "Subscription.run_query",
    Contract("Subscription.run_query", {"self": V.ObjT("KVSub")},
             ensures=[("exactly-one-eose-sentinel-at-the-end", "ghost('n_eose_put') == 1")],
             raises={"CancelledError": True},
             exc_ensures={"CancelledError": [("at-most-one-eose-when-cancelled", "ghost('n_eose_put') <= 1")]}),
    loops={1: LoopSpec("plans-validated", index="_a", invariants=_NOEOSE), 2: LoopSpec("events-validated", index="_b", invariants=_NOEOSE),
           3: LoopSpec("plans", index="_c", invariants=_NOEOSE), 4: LoopSpec("events", index="_d", invariants=_NOEOSE)},
    props=["C13", "C14"], ghost_init=ghost_runq, setup=setup_kv_runq,
    canaries=[("never-finishes", "False")],
))
run_query_kv.ghost_havoc = lambda sx, body, st: [st.ghost.__setitem__(g, sx.fresh(V.Int, "g_" + g, st)) for g in ("n_eose_put", "n_event_put")]
run_query_kv.obligation_props = [("put:event-passed", ["C14"]), ("put:", ["C13"]), ("post:", ["C13"]), ("exc", ["C13"]), ("inv:", ["C13"])]


# ---------------------------------------------------------------------------------------------------- compile_match_from_query (C01)
# The residual predicate is python source assembled with f-strings and exec'd.  Filter content must enter that source only as
# repr() of a str / int / tuple of those (a python literal), or as an integer constant of FIELDS_TO_COLUMNS.
from .util import Re, Cat, Star, Opt_, Un, Rng, INT, NAMED_RE  # noqa: E402

_NOTQ1 = z3.Intersect(Rng(chr(0x20), chr(0x2FFFF)), z3.Complement(Un(Re("'"), Re("\\"))))
_NOTQ2 = z3.Intersect(Rng(chr(0x20), chr(0x2FFFF)), z3.Complement(Un(Re('"'), Re("\\"))))
_ESC = Cat(Re("\\"), Rng(chr(0x20), chr(0x7E)), Star(Un(Rng("0", "9"), Rng("a", "f"), Rng("A", "F"))))
STRLIT = Un(Cat(Re("'"), Star(Un(_NOTQ1, _ESC)), Re("'")), Cat(Re('"'), Star(Un(_NOTQ2, _ESC)), Re('"')))
ATOMLIT = Un(STRLIT, INT)
TUPLELIT = Cat(Re("("), Opt_(Cat(ATOMLIT, Star(Cat(Re(", "), ATOMLIT)), Opt_(Re(",")))), Re(")"))
PYLIT = Un(ATOMLIT, TUPLELIT)
NAMED_RE["pyliteral"] = PYLIT
assume_doc("REPR", "repr() of a str, an int or a tuple of those is a python literal: a quoted string with every quote/backslash/control character "
                   "escaped, a decimal integer, or a parenthesised comma-separated list of such (language `pyliteral` in contracts/kv.py)")
QVALUE = V.Opaque("QueryValue")


def _repr_model(sx, v, st, node):
    v = sx.deref(sx.lift(v) if isinstance(v, Conc) else v, st)
    f = REG.ufun("repr_%s" % V._sname(v.ty), [v.ty.sort()], z3.StringSort())
    r = Val(V.Str, f(v.term))
    if isinstance(v.ty, (V._Str, V._Int)) or v.ty == QVALUE:
        sx.with_class(r, PYLIT, st)
    return [R(st, r)]


REG.repr_model = _repr_model


def _qvalue_truthy(sx, v, st):
    return REG.ufun("qvalue_truthy", [QVALUE.sort()], z3.BoolSort())(v.term)


class QValueItems:
    """iterating a query value (a tuple of strings): opaque strings"""

    def __init__(self, v):
        self.v = v

    def next(self, sx, st, k):
        return [R(st, sx.fresh(V.Str, "qitem", st))]


def _qvalue_iter(sx, v, st, node):
    return ("opaque", QValueItems(v))


_prev_truthy = SX_truthy = None
from pyvc.sx import SX as _SX  # noqa: E402
_orig_truthy = _SX.truthy


def _truthy(self, v, st=None):
    if isinstance(v, Val) and v.ty == QVALUE:
        return _qvalue_truthy(self, v, st)
    return _orig_truthy(self, v, st)


_SX.truthy = _truthy
from pyvc import builtins2 as _B2  # noqa: E402
_orig_iter_elems = _B2.iter_elems


def _iter_elems(sx, v, st, node):
    vv = sx.deref(v, st) if isinstance(v, Ref) else v
    if isinstance(vv, Val) and vv.ty == QVALUE:
        return ("qvalue", vv)
    return _orig_iter_elems(sx, v, st, node)


_B2.iter_elems = _iter_elems
_orig_aac = _B2.any_all_comprehension


def _any_all_comp(sx, node, st):
    comp = node.args[0]
    rs = sx.ev(comp.generators[0].iter, st)
    if len(rs) == 1 and rs[0].exc is None and isinstance(rs[0].val, Val) and rs[0].val.ty == QVALUE:
        # all(len(v) == 64 for v in value): some boolean function of the value
        f = REG.ufun("qvalue_all_%d" % (abs(hash(ast_text(comp))) % 100000), [QVALUE.sort()], z3.BoolSort())
        return [R(rs[0].st, Val(V.Bool, f(rs[0].val.term)))]
    return _orig_aac(sx, node, st)


def ast_text(n):
    import ast as _a
    return _a.unparse(n)


_B2.any_all_comprehension = _any_all_comp
from pyvc import builtins as _B1  # noqa: E402
_B1.any_all_comprehension = _any_all_comp

REG.globals["FIELDS_TO_COLUMNS"] = Conc({"id": V.mk_int(1), "created_at": V.mk_int(2), "kind": V.mk_int(3), "pubkey": V.mk_int(4),
                                         "content": V.mk_int(5), "tags": V.mk_int(6), "sig": V.mk_int(7)})


class ConfigFts:
    def __pyvc_getattr__(self, sx, attr, st, node):
        if attr == "fts_enabled":
            return [R(st, sx.fresh(V.Bool, "fts_enabled", st))]
        raise Unsupported("Config.%s" % attr, node)


@REG.model("exec")
def _exec(sx, args, kwargs, st, node):
    """exec(compile(source)) -- the generated source is what the hole obligations are about; its execution is not modelled"""
    st.ghost["compiled_source"] = sx.deref(args[0], st) if isinstance(args[0], Val) else V.mk_str("")
    if len(args) > 1 and isinstance(args[1], Ref):
        # the generated source defines `check` in the namespace dict
        t = V.Dict(V.Str, V.Opaque("Fn"))
        fn = sx.fresh(V.Opaque("Fn"), "check", st)
        cur = st.heap.get(args[1].cell)
        base = cur.term if isinstance(cur, Val) and cur.ty == t else t.empty()
        st.setcell(args[1].cell, Val(t, t.put(base, z3.StringVal("check"), fn.term)))
        args[1].ty = t
    return [R(st, NONE)]


@REG.model("compile")
def _compile(sx, args, kwargs, st, node):
    return [R(st, args[0])]


compile_match = REG.unit(Unit(
    P, "compile_match_from_query",
    Contract("compile_match_from_query", {"query_items": V.List(V.Tuple(V.Str, QVALUE))},
             ensures=[("returns-the-compiled-check", "True")], raises={"KeyError": True}),
    props=["C01"], canaries=[("never-returns", "False")],
))
compile_match.holes = {
    "__strict__": True,
    "col": ("column-number", INT),
    "value": ("python-literal", PYLIT),
    "key": ("python-literal", PYLIT),
    "filter_string": ("joined-clauses", z3.Full(z3.ReSort(z3.StringSort()))),
}
compile_match.local_types = {"filter_clauses": V.Set(V.Str), "loc": V.Dict(V.Str, V.Opaque("Fn"))}


# ---------------------------------------------------------------------------------------------------- KVGarbageCollector.collect (C17)
class KVCursor:
    """txn.cursor(): set_range(k) positions at the first key >= k; iternext(values=False) yields the keys from there in byte order"""

    def __pyvc_getattr__(self, sx, attr, st, node):
        if attr == "set_range":
            def sr(sx2, a, k, s, n):
                s.ghost["cursor_start"] = sx2.deref(a[0], s)
                return [R(s, sx2.fresh(V.Bool, "positioned", s))]
            return [R(st, Func(sr, "cursor.set_range"))]
        if attr == "iternext":
            return [R(st, Func(lambda sx2, a, k, s, n: [R(s, Conc(KeyWalk()))], "cursor.iternext"))]
        if attr == "close":
            return [R(st, Func(lambda sx2, a, k, s, n: [R(s, NONE)], "cursor.close"))]
        raise Unsupported("cursor.%s" % attr, node)


class KeyWalk:
    def __pyvc_iter__(self, sx, st, node):
        return ("opaque", self)

    def next(self, sx, st, k):
        key = sx.fresh(V.Bytes, "walk_key", st)
        st.assume(z3.Select(st.ghost["keys"].term, key.term))          # a key of the store ...
        st.assume(key.term >= st.ghost["cursor_start"].term)            # ... at or after the seek position (byte order)
        st.ghost["walk_key"] = key
        return [R(st, key)]


class GCTxn:
    def __pyvc_getattr__(self, sx, attr, st, node):
        if attr == "cursor":
            return [R(st, Func(lambda sx2, a, k, s, n: [R(s, Conc(KVCursor()))], "txn.cursor"))]
        raise Unsupported("conn.%s" % attr, node)


class GCIndex:
    def __init__(self, name):
        self.name = name

    def __pyvc_getattr__(self, sx, attr, st, node):
        if attr == "to_key":
            def tk(sx2, a, k, s, n):
                v = sx2.deref(sx2.lift(a[0]) if isinstance(a[0], Conc) else a[0], s)
                if self.name == "kinds":
                    return [R(s, Val(V.Bytes, z3.Concat(z3.StringVal("\x02"), BE4(v.term))))]
                if self.name == "tags":
                    n0, v0 = v.ty.field(v.term, 0), v.ty.field(v.term, 1)
                    return [R(s, Val(V.Bytes, z3.Concat(z3.StringVal("\x09"), UTF8(n0), z3.StringVal("\x00"), UTF8(v0))))]
                raise Unsupported("to_key of %s" % self.name, n)
            return [R(st, Func(tk, "index.to_key"))]
        return IndexModel(self.name).__pyvc_getattr__(sx, attr, st, node)


REG.classes["KVGarbageCollector"] = {"log": lambda sx, st, name: LOGGER, "storage": V.ObjT("GCStorage")}
REG.classes["GCStorage"] = {}


@REG.method("GCStorage", "delete_event", frame=[])
def _gc_delete(sx, args, kwargs, st, node):
    """storage.delete_event(hex id): queues ("del", [id]) for the writer (WriterThread.run 'del' branch)"""
    hid = sx.deref(args[1], st)
    lst = st.ghost["to_delete"]
    st.ghost["deleted_calls"] = Val(V.Int, st.ghost["deleted_calls"].term + 1)
    st.ghost["last_deleted"] = hid
    return [R(st, NONE)]


def ghost_gc_kv(sx, st):
    ghost_kv(sx, st)
    st.ghost["clock"] = sx.fresh(V.Real, "clock0", st)
    st.ghost["cursor_start"] = V.mk_bytes(b"")
    st.ghost["walk_key"] = V.mk_bytes(b"")
    st.ghost["deleted_calls"] = V.mk_int(0)
    st.ghost["last_deleted"] = V.mk_str("")
    st.ghost["to_delete"] = V.mk_int(0)


def setup_gc_kv(sx, st, params):
    st.env["INDEXES"] = Conc({"kinds": Conc(GCIndex("kinds")), "tags": Conc(GCIndex("tags"))})


IN_EPHEMERAL_RANGE = "walked >= b'\\x02' + be4(20000) and walked <= b'\\x02' + be4(29999)"
IN_EXPIRATION_RANGE = ("walked >= b'\\x09' + utf8('expiration') + b'\\x00' + utf8('0') and "
                       "walked <= b'\\x09' + utf8('expiration') + b'\\x00' + utf8(str(int(ghost('clock'))))")
gc_kv = REG.unit(Unit(
    P, "KVGarbageCollector.collect",
    Contract("KVGarbageCollector.collect", {"self": V.ObjT("KVGarbageCollector"), "conn": lambda sx, st, name: Conc(GCTxn())},
             ensures=[("one-deletion-request-per-collected-id", "ghost('deleted_calls') == result and result >= 0"),
                      # what the byte-order walk from "0" to str(now) must mean (the tag value is compared as text; for ASCII digit
                      # strings utf-8 byte order = code-point order)
                      ("expiration-range-means-earlier-than-now",
                       "forall(lambda v: ((not str_lt(v, '0')) and (not str_lt(str(int(ghost('clock'))), v))) == "
                       "(matches(v, 'decimal') and decimal_value(v) < int(ghost('clock'))), v=Str)")],
             raises={}, returns=V.Int),
    loops={
        1: LoopSpec("ephemeral-walk", index="_a", invariants=[("nothing-deleted-yet", "ghost('deleted_calls') == 0")]),
        2: LoopSpec("expiration-walk", index="_b", invariants=[("nothing-deleted-yet", "ghost('deleted_calls') == 0")]),
        3: LoopSpec("deletions", index="_c", invariants=[("one-per-id", "ghost('deleted_calls') == _c")], iter_post=[
            ("deletes-exactly-the-collected-id", "ghost('deleted_calls') == head_deleted_calls + 1 and ghost('last_deleted') == event_id")]),
    },
    props=["C17"], ghost_init=ghost_gc_kv, setup=setup_gc_kv,
    canaries=[("collects-nothing", "result == 0")],
))
from . import gc as _gc  # noqa: E402  (str_lt / decimal_value / 'decimal')
gc_kv.local_types = {"to_del": V.List(V.Str)}
gc_kv.ghost_havoc = lambda sx, body, st: [st.ghost.__setitem__(g, sx.fresh(st.ghost[g].ty, "g_" + g, st)) for g in ("walk_key", "deleted_calls", "last_deleted")]
gc_kv.stmt_hints = [
    # an id is collected only from a key walked inside the range of the scan that is running
    ("to_del.append(event_id)", {"walked": "key"}, [],
     [("collected-only-from-the-scanned-range", "(%s) or (%s)" % (IN_EPHEMERAL_RANGE, IN_EXPIRATION_RANGE)),
      ("collected-id-is-the-keys-id", "event_id == key[-32:].hex()")]),
]


# ---------------------------------------------------------------------------------------------------- LMDBStorage.close (C06, C08, C07)
# shutting down must not lose what was acknowledged: every task already on the writer queue (an accepted event, an accepted
# deletion) is applied before the writer stops.  close() therefore only queues the end-of-work sentinel behind them and waits for the
# writer; it does not stop the writer loop any other way.
class _CloseQueue:
    def __pyvc_getattr__(self, sx, attr, st, node):
        if attr == "put":
            def put(sx2, a, k, s, n):
                item = a[0]
                is_none = isinstance(item, Val) and isinstance(item.ty, V._None)
                s.ghost["sentinels_queued"] = Val(V.Int, s.ghost["sentinels_queued"].term + (1 if is_none else 0))
                s.ghost["other_tasks_queued"] = Val(V.Int, s.ghost["other_tasks_queued"].term + (0 if is_none else 1))
                return [R(s, NONE)]
            return [R(st, Func(put, "writer_queue.put"))]
        raise Unsupported("writer_queue.%s" % attr, node)


REG.classes["WriterThreadC"] = {"running": V.Bool, "processing": V.Bool}


@REG.method("WriterThreadC", "join", frame=[])
def _wt_join(sx, args, kwargs, st, node):
    st.ghost["joined_after_sentinel"] = Val(V.Bool, st.ghost["sentinels_queued"].term == 1)
    return [R(st, NONE)]


class _Closable:
    def __pyvc_getattr__(self, sx, attr, st, node):
        return [R(st, Func(lambda sx2, a, k, s, n: [R(s, NONE)], "closable." + attr))]


REG.classes["LMDBStorageC"] = {
    "log": lambda sx, st, name: LOGGER, "db": lambda sx, st, name: Conc(_Closable()), "garbage_collector_task": lambda sx, st, name: Conc(_Closable()),
    "writer_queue": lambda sx, st, name: Conc(_CloseQueue()), "writer_thread": V.ObjT("WriterThreadC"),
    "query_pool": lambda sx, st, name: Conc(_Closable()), "options": lambda sx, st, name: Conc({"path": V.mk_str("p")}),
}


def ghost_close(sx, st):
    for g in ("sentinels_queued", "other_tasks_queued"):
        st.ghost[g] = V.mk_int(0)
    st.ghost["joined_after_sentinel"] = V.mk_bool(False)


REG.unit(Unit(
    P, "LMDBStorage.close",
    Contract("LMDBStorage.close", {"self": V.ObjT("LMDBStorageC")},
             ensures=[("one-sentinel-behind-the-pending-tasks", "ghost('sentinels_queued') == 1 and ghost('other_tasks_queued') == 0"),
                      ("waits-for-the-writer", "ghost('joined_after_sentinel')"),
                      ("writer-loop-not-stopped-by-hand", "self.writer_thread.running == old(self.writer_thread.running)")],
             raises={}, modifies=["self.db"]),
    props=["C06", "C08", "C07"], ghost_init=ghost_close,
    canaries=[("never-returns", "False")],
))
