"""
Sidecar contracts for the garbage collectors (C17): storage/db.py QueryGarbageCollector.collect.
"""
import ast
import z3
from pyvc import vals as V
from pyvc.vals import Val, Ref, Func, Conc, NONE
from pyvc.sx import R, Exc, LoopSpec, fresh_name, Unsupported
from pyvc.registry import load_source
from .common import REG, Contract, Unit, SpecFunc, LOGGER, assume_doc
from . import sqlmodel as SQL
from .util import Re, Cat, Star, Opt_, Un, Rng, INT, NAMED_RE

P = "nostr_relay/storage/db.py"


def class_attr_constant(path, cls, attr):
    text, tree = load_source(path)
    for node in tree.body:
        if isinstance(node, ast.ClassDef) and node.name == cls:
            for st in node.body:
                if isinstance(st, ast.Assign) and len(st.targets) == 1 and isinstance(st.targets[0], ast.Name) and st.targets[0].id == attr \
                        and isinstance(st.value, ast.Constant) and isinstance(st.value.value, str):
                    return st.value.value
    raise Unsupported("class attribute %s.%s is not a string constant" % (cls, attr))


REG.classes["QueryGarbageCollector"] = {
    "log": lambda sx, st, name: LOGGER,
    "query": lambda sx, st, name: V.mk_str(class_attr_constant(P, "QueryGarbageCollector", "query")),
}

# the statement the relay intends to run: a fixed template whose only variable part is one decimal literal
WS = Star(Un(Re(" "), Re("\n"), Re("\t")))
GC_STATEMENT = Cat(WS, Re("DELETE FROM events WHERE events.id IN"), WS, Re("("), WS,
                   Re("SELECT events.id FROM events"), WS, Re("LEFT JOIN tags on tags.id = events.id"), WS, Re("WHERE"), WS,
                   Re("(kind >= 20000 and kind < 30000)"), WS, Re("OR"), WS,
                   Re("(tags.name = 'expiration' AND tags.value < '"), z3.Plus(Rng("0", "9")), Re("')"), WS, Re(")"), WS)
NAMED_RE["gc_statement"] = GC_STATEMENT
NAMED_RE["decimal"] = z3.Plus(Rng("0", "9"))
assume_doc("GCSQL", "SQLite/PostgreSQL evaluate  tags.value < '<digits>'  on TEXT columns as a string comparison (code-point order); the rest of the "
                    "GC statement denotes: kind in [20000, 30000) or some expiration tag row satisfies that comparison")


class TextStmt:
    def __init__(self, v):
        self.v = v


def _sa_text(sx, args, kwargs, st, node):
    return [R(st, Conc(TextStmt(sx.deref(args[0], st))))]


_old_sa_getattr = SQL.SA.__pyvc_getattr__


def _sa_getattr(self, sx, attr, st, node):
    if attr == "text":
        return [R(st, Func(_sa_text, "sa.text"))]
    return _old_sa_getattr(self, sx, attr, st, node)


SQL.SA.__pyvc_getattr__ = _sa_getattr


class GCConn:
    def __pyvc_getattr__(self, sx, attr, st, node):
        if attr == "execute":
            def ex(sx2, a, k, s, n):
                stmt = a[0]
                if not (isinstance(stmt, Conc) and isinstance(stmt.v, TextStmt)):
                    raise Unsupported("GC executes something other than sa.text(...)", n)
                s.ghost["gc_statement"] = stmt.v.v
                s.ghost["gc_executed"] = Val(V.Int, s.ghost["gc_executed"].term + 1)
                res = Conc(GCResult())
                return [R(s, res), R(s.fork(), None, SQL.engine_error())]
            return [R(st, Func(ex, "conn.execute"))]
        raise Unsupported("conn.%s" % attr, node)


class GCResult:
    def __pyvc_getattr__(self, sx, attr, st, node):
        if attr == "rowcount":
            return [R(st, sx.fresh(V.Int, "rowcount", st))]
        raise Unsupported("result.%s" % attr, node)


def ghost_gc(sx, st):
    st.ghost["clock"] = sx.fresh(V.Real, "clock0", st)
    st.ghost["gc_statement"] = V.mk_str("")
    st.ghost["gc_executed"] = V.mk_int(0)


@REG.model("str_lt")
def _str_lt(sx, args, kwargs, st, node):
    return [R(st, Val(V.Bool, args[0].term < args[1].term))]


@REG.model("decimal_value")
def _decimal_value(sx, args, kwargs, st, node):
    return [R(st, Val(V.Int, z3.StrToInt(args[0].term)))]


NOW_LIT = "str(int(ghost('clock')))"
gc_collect = REG.unit(Unit(
    P, "QueryGarbageCollector.collect",
    Contract("QueryGarbageCollector.collect", {"self": V.ObjT("QueryGarbageCollector"), "conn": lambda sx, st, name: Conc(GCConn())},
             requires=[("clock-is-a-plausible-time", "ghost('clock') >= 0")],
             ensures=[
                 ("one-fixed-statement-with-a-decimal-literal", "ghost('gc_executed') == 1 and matches(ghost('gc_statement'), 'gc_statement')"),
                 ("literal-is-the-current-time", "('tags.value < ' + chr(39) + %s + chr(39)) in ghost('gc_statement')" % NOW_LIT),
                 # the comparison the statement makes must mean: expiration is a well-formed timestamp earlier than now
                 ("expiration-comparison-means-earlier-than-now",
                  "forall(lambda v: str_lt(v, %s) == (matches(v, 'decimal') and decimal_value(v) < int(ghost('clock'))), v=Str)" % NOW_LIT),
                 ("returns-a-count", "result >= 0"),
             ],
             raises={"EngineError+": True}, returns=V.Int),
    props=["C17"], ghost_init=ghost_gc,
    canaries=[("never-executes", "ghost('gc_executed') == 0")],
))
