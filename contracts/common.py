"""
Shared registry, trusted models of the standard library pieces used everywhere (logging, clocks),
and the lemma mechanism.  Everything registered with REG.model / REG.globals here is an ASSUMED
contract on a dependency (listed in evidence under `assumptions`).
"""
import z3
from pyvc import vals as V
from pyvc.vals import Val, Ref, Func, Conc, NONE
from pyvc.sx import R, Out, Exc, Unsupported, fresh_name, LoopSpec
from pyvc.registry import Registry, Contract, Unit, SpecFunc

REG = Registry()
ASSUMPTIONS = {}  # key -> text ; units name the keys they depend on


def assume_doc(key, text):
    ASSUMPTIONS[key] = text


assume_doc("A1", "Python semantics as encoded by pyvc (ints mathematical, str/bytes as SMT strings ordered by code point, lists as (array,length), dict insertion order irrelevant to the obligations)")
assume_doc("A3", "clock values are reals and successive clock reads are non-decreasing")
assume_doc("A6", "logging calls are effect-free and do not raise (their arguments are still evaluated)")
assume_doc("A7", "z3 (and cvc5 where used) are sound: an `unsat` answer is believed")


class Logger:
    """logging.Logger: every method evaluates to None, no effect (assumption A6)"""

    def __pyvc_getattr__(self, sx, attr, st, node):
        return [R(st, Func(lambda sx2, a, k, s, n: [R(s, NONE)], "log." + attr))]


LOGGER = Conc(Logger())


class LoggingModule:
    def __pyvc_getattr__(self, sx, attr, st, node):
        if attr == "getLogger":
            return [R(st, Func(lambda sx2, a, k, s, n: [R(s, LOGGER)], "logging.getLogger"))]
        raise Unsupported("logging.%s" % attr, node)


REG.globals["logging"] = Conc(LoggingModule())
REG.globals["log"] = LOGGER


def clock_read(sx, st, name="now"):
    """a clock read: fresh real, >= every earlier read on this path (assumption A3)"""
    prev = st.ghost.get("clock")
    v = sx.fresh(V.Real, name, st)
    if prev is not None:
        st.assume(v.term >= prev.term)
    st.ghost["clock"] = v
    if "clock1" not in st.ghost:
        st.ghost["clock1"] = v  # first clock read of this call
    return v


@REG.model("perf_counter")
def _perf_counter(sx, args, kwargs, st, node):
    return [R(st, clock_read(sx, st, "perf"))]


@REG.model("time")
def _time(sx, args, kwargs, st, node):
    return [R(st, clock_read(sx, st, "time"))]


# ----------------------------------------------------------------------------- lemmas
from pyvc.registry import Lemma


def lemma(name, vars, hyp, concl, induct=None, base=None, props=()):
    l = Lemma(name, vars, hyp, concl, induct, base, props)
    REG.lemmas[name] = l
    return l


# ----------------------------------------------------------------------------- aionostr Event (record view)
TAGS = V.List(V.List(V.Str))
EVENT = V.Rec("Event", {
    "id": V.Str, "pubkey": V.Str, "created_at": V.Int, "kind": V.Int, "content": V.Str, "tags": TAGS, "sig": V.Str,
})
assume_doc("EV", "events are viewed through their canonical field types (id/pubkey/sig str, created_at/kind int, content str, tags list of lists of str); "
                 "aionostr.Event.is_ephemeral/is_replaceable/is_paramaterized_replaceable/id_bytes are modelled from the installed source (kind ranges 20000-29999, 10000-19999, 30000-39999; bytes.fromhex(id))")

HEXRE = z3.Star(z3.Union(z3.Range("0", "9"), z3.Range("a", "f")))
FROMHEX = REG.ufun("bytes_fromhex", [z3.StringSort()], z3.StringSort())
FROMHEX_OK = REG.ufun("fromhex_ok", [z3.StringSort()], z3.BoolSort())


def fromhex(sx, s, st):
    """bytes.fromhex(s) (ASSUMED): ValueError unless s is hex digits (any case, ASCII whitespace allowed between pairs);
    on an even number of hex digits: no error, len(result) == len(s)/2"""
    r = FROMHEX(s)
    st.assume(z3.Implies(z3.And(z3.InRe(s, HEXRE), z3.Length(s) % 2 == 0), z3.And(FROMHEX_OK(s), 2 * z3.Length(r) == z3.Length(s))))
    st.assume(z3.Implies(FROMHEX_OK(s), 2 * z3.Length(r) <= z3.Length(s)))
    outs = []
    if not sx.spec_mode:
        s2 = st.fork().assume(z3.Not(FROMHEX_OK(s)))
        if sx.feasible(s2):
            outs.append(R(s2, None, Exc("ValueError")))
        st.assume(FROMHEX_OK(s))
    outs.append(R(st, Val(V.Bytes, r)))
    return outs


class BytesClass:
    __pyvc_classname__ = "bytes"

    def __pyvc_getattr__(self, sx, attr, st, node):
        if attr == "fromhex":
            def _fh(sx2, a, k, s, n):
                v = a[0]
                v = sx2.deref(sx2.lift(v) if isinstance(v, Conc) else v, s)
                if not (isinstance(v, Val) and isinstance(v.ty, V._Str)):
                    # not statically a str (None, a JSON value, a value without contract): TypeError, or its text is parsed
                    outs = [R(s.fork(), None, Exc("TypeError"))]
                    return outs + fromhex(sx2, sx2.coerce_str(v, s).term, s)
                return fromhex(sx2, v.term, s)
            return [R(st, Func(_fh, "bytes.fromhex"))]
        raise Unsupported("bytes.%s" % attr, node)

    def __pyvc_call__(self, sx, args, kwargs, st, node):
        from pyvc import builtins2 as B2

        return B2._bytes_ctor(sx, args, kwargs, st, node)


REG.globals["bytes"] = Conc(BytesClass())

BE_INT = REG.ufun("be_int", [z3.StringSort()], z3.IntSort())


class IntClass:
    __pyvc_classname__ = "int"

    def __pyvc_getattr__(self, sx, attr, st, node):
        if attr == "from_bytes":
            def fb(sx2, a, k, s, n):
                v = BE_INT(a[0].term)
                s.assume(v >= 0)
                s.assume((v == 0) == z3.InRe(a[0].term, z3.Star(z3.Re(z3.StringVal("\x00")))))
                return [R(s, Val(V.Int, v))]
            return [R(st, Func(fb, "int.from_bytes"))]
        raise Unsupported("int.%s" % attr, node)

    def __pyvc_call__(self, sx, args, kwargs, st, node):
        from pyvc import builtins2 as B2

        return B2._int(sx, args, kwargs, st, node)


REG.globals["int"] = Conc(IntClass())


def _ev_prop(name):
    def deco(f):
        REG.rec_props[("Event", name)] = f
        return f
    return deco


@_ev_prop("id_bytes")
def _id_bytes(sx, ev, st, node):
    return fromhex(sx, EVENT.get(ev.term, "id"), st)


@_ev_prop("is_ephemeral")
def _is_eph(sx, ev, st, node):
    k = EVENT.get(ev.term, "kind")
    return [R(st, Val(V.Bool, z3.And(k >= 20000, k < 30000)))]


@_ev_prop("is_replaceable")
def _is_repl(sx, ev, st, node):
    k = EVENT.get(ev.term, "kind")
    return [R(st, Val(V.Bool, z3.And(k >= 10000, k < 20000)))]


@_ev_prop("is_paramaterized_replaceable")
def _is_prepl(sx, ev, st, node):
    k = EVENT.get(ev.term, "kind")
    return [R(st, Val(V.Bool, z3.And(k >= 30000, k < 40000)))]


# crypto is uninterpreted: verify() is exactly "signature (and every delegation signature) checks out over the
# hash recomputed from the event's own fields"; what it does NOT check is part of its contract (see C03)
VERIFY = REG.ufun("event_verify", [EVENT.sort()], z3.BoolSort())


@_ev_prop("verify")
def _verify(sx, ev, st, node):
    def call(sx2, a, k, s, n):
        return [R(s, Val(V.Bool, VERIFY(ev.term)))]
    return [R(st, Func(call, "Event.verify"))]


class EventKindEnum:
    VALUES = {"SET_METADATA": 0, "TEXT_NOTE": 1, "RECOMMEND_RELAY": 2, "CONTACTS": 3, "ENCRYPTED_DIRECT_MESSAGE": 4, "DELETE": 5}

    def __pyvc_getattr__(self, sx, attr, st, node):
        return [R(st, V.mk_int(self.VALUES[attr]))]


REG.globals["EventKind"] = Conc(EventKindEnum())


# ----------------------------------------------------------------------------- re module (stated subset, see pyvc/pyre.py)
class RegexObj:
    def __init__(self, pattern):
        self.pattern = pattern

    def __pyvc_getattr__(self, sx, attr, st, node):
        if attr in ("match", "fullmatch", "search"):
            def m(sx2, a, k, s, n):
                from pyvc import pyre
                v = sx2.deref(a[0], s)
                if not isinstance(v.ty, V._Str):
                    raise Unsupported("regex match on %r" % (v.ty,), n)
                # truthiness of the match object is all the engine models
                return [R(s, Val(V.Bool, pyre.match_term(self.pattern, v.term, attr)))]
            return [R(st, Func(m, "regex." + attr))]
        raise Unsupported("regex.%s" % attr, node)


class ReModule:
    def __pyvc_getattr__(self, sx, attr, st, node):
        if attr == "compile":
            def comp(sx2, a, k, s, n):
                p = z3.simplify(a[0].term)
                if not z3.is_string_value(p) or len(a) > 1 or k:
                    raise Unsupported("re.compile with non-literal pattern or flags", n)
                return [R(s, Conc(RegexObj(_z3str(p))))]
            return [R(st, Func(comp, "re.compile"))]
        if attr in ("match", "fullmatch", "search"):
            def direct(sx2, a, k, s, n):
                p = z3.simplify(a[0].term)
                if not z3.is_string_value(p) or len(a) != 2:
                    raise Unsupported("re.%s with non-literal pattern" % attr, n)
                return RegexObj(_z3str(p)).__pyvc_getattr__(sx2, attr, s, n)[0].val.fn(sx2, a[1:], k, s, n)
            return [R(st, Func(direct, "re." + attr))]
        raise Unsupported("re.%s" % attr, node)


def _z3str(v):
    import re as _re
    return _re.sub(r"\\u\{([0-9a-fA-F]+)\}", lambda m: chr(int(m.group(1), 16)), v.as_string())


REG.globals["re"] = Conc(ReModule())


# ----------------------------------------------------------------------------- asyncio (shared, extensible model)
TASK = V.Opaque("Task")
ASYNCIO_ATTRS = {}


class AsyncioModel:
    __pyvc_module__ = "asyncio"   # members the model does not cover are values without a contract (pyvc.sx.Unknown)

    def __pyvc_getattr__(self, sx, attr, st, node):
        f = ASYNCIO_ATTRS.get(attr)
        if f is None:
            raise Unsupported("asyncio.%s" % attr, node)
        return f(sx, st, node)


REG.globals["asyncio"] = Conc(AsyncioModel())


def asyncio_attr(name):
    def deco(f):
        ASYNCIO_ATTRS[name] = f
        return f
    return deco


@asyncio_attr("sleep")
def _aio_sleep(sx, st, node):
    return [R(st, Func(lambda sx2, a, k, s, n: [R(s, NONE)], "asyncio.sleep"))]


@asyncio_attr("wait")
def _aio_wait(sx, st, node):
    return [R(st, Func(lambda sx2, a, k, s, n: [R(s, NONE)], "asyncio.wait"))]


@asyncio_attr("create_task")
def _aio_create_task(sx, st, node):
    def ct(sx2, a, k, s, n):
        """asyncio.create_task(coro) (ASSUMED): schedules the coroutine, returns its task"""
        if "task_created" in s.ghost:
            s.ghost["task_created"] = V.mk_bool(True)
        if "tasks_created" in s.ghost:
            s.ghost["tasks_created"] = Val(V.Int, s.ghost["tasks_created"].term + 1)
        return [R(s, sx2.fresh(TASK, "task", s))]
    return [R(st, Func(ct, "asyncio.create_task"))]


@asyncio_attr("TimeoutError")
def _aio_te(sx, st, node):
    return [R(st, Conc("TimeoutError"))]


@asyncio_attr("CancelledError")
def _aio_ce(sx, st, node):
    return [R(st, Conc("CancelledError"))]


def _task_method(sx, obj, attr, args, kwargs, st, node):
    if attr == "cancel":
        if "task_cancelled" in st.ghost:
            st.ghost["task_cancelled"] = V.mk_bool(True)
        return [R(st, NONE)]
    return None


def _task_await(sx, v, st, node):
    # awaiting a (cancelled) task: its result, or CancelledError if it was cancelled before it ran
    s2 = st.fork()
    for s in (st, s2):
        if "task_awaited" in s.ghost:
            s.ghost["task_awaited"] = V.mk_bool(True)
    return [R(st, sx.fresh(V.Int, "task_result", st)), R(s2, None, Exc("CancelledError"))]


REG.hooks[("method", repr(TASK))] = _task_method
REG.hooks[("await", repr(TASK))] = _task_await
