"""
Shared registry, trusted models of the standard library pieces used everywhere (logging, clocks),
and the lemma mechanism.  Everything registered with REG.model / REG.globals here is an ASSUMED
contract on a dependency (listed in evidence under `assumptions`).
"""
import z3
from pyvc import vals as V
from pyvc.vals import Val, Ref, Func, Conc, NONE
from pyvc.sx import R, Out, Exc, Unsupported, fresh_name, LoopSpec
from pyvc.registry import Registry, Contract, Unit, SpecFunc

REG = Registry()
ASSUMPTIONS = {}  # key -> text ; units name the keys they depend on


def assume_doc(key, text):
    ASSUMPTIONS[key] = text


assume_doc("A1", "Python semantics as encoded by pyvc (ints mathematical, str/bytes as SMT strings ordered by code point, lists as (array,length), dict insertion order irrelevant to the obligations)")
assume_doc("A3", "clock values are reals and successive clock reads are non-decreasing")
assume_doc("A6", "logging calls are effect-free and do not raise (their arguments are still evaluated)")
assume_doc("A7", "z3 (and cvc5 where used) are sound: an `unsat` answer is believed")


class Logger:
    """logging.Logger: every method evaluates to None, no effect (assumption A6)"""

    def __pyvc_getattr__(self, sx, attr, st, node):
        return [R(st, Func(lambda sx2, a, k, s, n: [R(s, NONE)], "log." + attr))]


LOGGER = Conc(Logger())


class LoggingModule:
    def __pyvc_getattr__(self, sx, attr, st, node):
        if attr == "getLogger":
            return [R(st, Func(lambda sx2, a, k, s, n: [R(s, LOGGER)], "logging.getLogger"))]
        raise Unsupported("logging.%s" % attr, node)


REG.globals["logging"] = Conc(LoggingModule())
REG.globals["log"] = LOGGER


def clock_read(sx, st, name="now"):
    """a clock read: fresh real, >= every earlier read on this path (assumption A3)"""
    prev = st.ghost.get("clock")
    v = sx.fresh(V.Real, name, st)
    if prev is not None:
        st.assume(v.term >= prev.term)
    st.ghost["clock"] = v
    return v


@REG.model("perf_counter")
def _perf_counter(sx, args, kwargs, st, node):
    return [R(st, clock_read(sx, st, "perf"))]


@REG.model("time")
def _time(sx, args, kwargs, st, node):
    return [R(st, clock_read(sx, st, "time"))]


# ----------------------------------------------------------------------------- lemmas
from pyvc.registry import Lemma


def lemma(name, vars, hyp, concl, induct=None, base=None, props=()):
    l = Lemma(name, vars, hyp, concl, induct, base, props)
    REG.lemmas[name] = l
    return l
