"""
Sidecar contracts for nostr_relay/auth.py  (C15: NIP-42 authentication, C14: role-based authorization).
"""
import z3
from pyvc import vals as V
from pyvc.vals import Val, Ref, Func, Conc, NONE
from pyvc.sx import R, Exc, LoopSpec, fresh_name, Unsupported
from .common import REG, Contract, Unit, SpecFunc, LOGGER, EVENT, TAGS, clock_read
from .validators import clock0

P = "nostr_relay/auth.py"
ROLES = V.Set(V.Str)
URLS = V.List(V.Str)

# the token returned by authenticate(): a dict {"pubkey":…, "roles": set, "now":…}; clients of can_do may also pass
# None or {} (unauthenticated).  `nonempty` is the dict's truthiness.
TOKEN = V.Rec("Token", {"nonempty": V.Bool, "has_roles": V.Bool, "roles": ROLES, "has_pubkey": V.Bool, "pubkey": V.Str})


def _token_truthy(sx, v, st):
    return TOKEN.get(v.term, "nonempty")


REG.hooks[("truthy", "Token")] = _token_truthy


def _token_get(sx, obj, attr, args, kwargs, st, node):
    if attr != "get":
        return None
    key = z3.simplify(args[0].term)
    if not z3.is_string_value(key):
        raise Unsupported("token.get with symbolic key", node)
    k = key.as_string()
    dflt = args[1] if len(args) > 1 else NONE
    if k == "roles":
        has = z3.And(TOKEN.get(obj.term, "nonempty"), TOKEN.get(obj.term, "has_roles"))
        got = Val(ROLES, TOKEN.get(obj.term, "roles"))
        d = sx.deref(dflt, st)
        if isinstance(d.ty, V._None):
            t = V.Opt(ROLES)
            return [R(st, Val(t, z3.If(has, t.some(got.term), t.none())))]
        return [R(st, Val(ROLES, z3.If(has, got.term, d.term)))]
    if k == "pubkey":
        has = z3.And(TOKEN.get(obj.term, "nonempty"), TOKEN.get(obj.term, "has_pubkey"))
        t = V.Opt(V.Str)
        return [R(st, Val(t, z3.If(has, t.some(TOKEN.get(obj.term, "pubkey")), t.none())))]
    raise Unsupported("token.get(%r)" % k, node)


REG.hooks[("method", "Token")] = _token_get

REG.classes["Authenticator"] = {
    "log": lambda sx, st, name: LOGGER,
    "default_roles": ROLES,
    "actions": V.Dict(V.Str, ROLES),
    "is_enabled": V.Bool,
}
REG.classes["AuthenticatorUrlsList"] = {"__base__": "Authenticator", "valid_urls": URLS}
REG.classes["AuthenticatorUrlsStr"] = {"__base__": "Authenticator", "valid_urls": V.Str}

# ---------------------------------------------------------------------------------------------
# C15  check_auth_event
# ---------------------------------------------------------------------------------------------
REG.spec_funcs["url_listed"] = SpecFunc(REG, "url_listed", [("u", V.Str), ("urls", URLS)], V.Bool, """
def url_listed(u, urls):
    # u is one of the URLs the relay answers to
    return any_range(0, len(urls), lambda i: urls[i] == u)
""")
TAGS_OK = ("any_range(0, len(auth_event.tags), lambda i: auth_event.tags[i][0] == 'relay')"
           " and all_range(0, len(auth_event.tags), lambda i: implies(auth_event.tags[i][0] == 'relay', url_listed(auth_event.tags[i][1], URLS_OF_SELF)))"
           " and any_range(0, len(auth_event.tags), lambda i: auth_event.tags[i][0] == 'challenge')"
           " and all_range(0, len(auth_event.tags), lambda i: implies(auth_event.tags[i][0] == 'challenge', auth_event.tags[i][1] == challenge))")
AUTH_OK = ("event_verify(auth_event) and auth_event.kind == 22242"
           " and ghost('clock') - auth_event.created_at < 600 and ghost('clock') - auth_event.created_at > -600 and " + TAGS_OK)
SHAPE = "all_range(0, len(auth_event.tags), lambda i: len(auth_event.tags[i]) >= 2)"

INV = [
    ("found-relay", "found_relay == any_range(0, _k, lambda i: auth_event.tags[i][0] == 'relay')"),
    ("found-challenge", "found_challenge == any_range(0, _k, lambda i: auth_event.tags[i][0] == 'challenge')"),
    ("relay-tags-listed", "all_range(0, _k, lambda i: implies(auth_event.tags[i][0] == 'relay', url_listed(auth_event.tags[i][1], URLS_OF_SELF)))"),
    ("challenge-tags-match", "all_range(0, _k, lambda i: implies(auth_event.tags[i][0] == 'challenge', auth_event.tags[i][1] == challenge))"),
]


def check_auth_unit(cls, urls_expr, variant):
    def sub(s):
        return s.replace("URLS_OF_SELF", urls_expr)
    u = Unit(
        P, "Authenticator.check_auth_event",
        Contract("Authenticator.check_auth_event", {"self": V.ObjT(cls), "auth_event": EVENT, "challenge": V.Str},
                 requires=[("tags-have-two-items", SHAPE)],
                 ensures=[("accepted-only-if-fresh-signed-answer", sub(AUTH_OK))],
                 # a correct answer is never refused
                 raises={"AuthenticationError": sub("not (%s)" % AUTH_OK)}),
        loops={"auth_event.tags": LoopSpec("tags", index="_k", invariants=[(n, sub(e)) for n, e in INV])},
        props=["C15"], setup=clock0,
        canaries=[("never-accepts", "False")],
    )
    u.ghost_const = ("clock",)
    return REG.unit(u)


check_auth_list = check_auth_unit("AuthenticatorUrlsList", "self.valid_urls", "urls-list")
# (relay_urls given as a single string is normalised to a one-element list by parse_options -- see its contract below)

# ---------------------------------------------------------------------------------------------
# C14  can_do
# ---------------------------------------------------------------------------------------------
@REG.method("Authenticator", "evaluate_target", frame=[])
def _evaluate_target(sx, args, kwargs, st, node):
    """evaluate_target (ASSUMED at this call site; it has its own trivial body): some boolean"""
    return [R(st, Val(V.Bool, z3.Bool(fresh_name("target_ok"))))]


ROLES_OF = "(auth_token.roles if (auth_token is not None and auth_token.nonempty and auth_token.has_roles) else self.default_roles)"
CAN = ("(not self.is_enabled) or (action not in self.actions) or "
       "exists(lambda r: r in self.actions[action] and r in %s, r=Str)" % ROLES_OF)
REG.unit(Unit(
    P, "Authenticator.can_do",
    Contract("Authenticator.can_do", {"self": V.ObjT("AuthenticatorUrlsList"), "auth_token": V.Opt(TOKEN), "action": V.Str, "target": V.NoneT},
             ensures=[("allowed-iff-roles-intersect", "result == (%s)" % CAN)],
             returns=V.Bool),
    props=["C14"], setup=clock0, canaries=[("always-allowed", "result")],
))
