"""
Sidecar contracts for nostr_relay/auth.py  (C15: NIP-42 authentication, C14: role-based authorization).
"""
import z3
from pyvc import vals as V
from pyvc.vals import Val, Ref, Func, Conc, NONE
from pyvc.sx import R, Exc, LoopSpec, fresh_name, Unsupported
from .common import REG, Contract, Unit, SpecFunc, LOGGER, EVENT, TAGS, clock_read
from .validators import clock0

P = "nostr_relay/auth.py"
ROLES = V.Set(V.Str)
URLS = V.List(V.Str)

# the token returned by authenticate(): a dict {"pubkey":…, "roles": set, "now":…}; clients of can_do may also pass
# None or {} (unauthenticated).  `nonempty` is the dict's truthiness.
TOKEN = V.Rec("Token", {"nonempty": V.Bool, "has_roles": V.Bool, "roles": ROLES, "has_pubkey": V.Bool, "pubkey": V.Str})


def _token_truthy(sx, v, st):
    return TOKEN.get(v.term, "nonempty")


REG.hooks[("truthy", "Token")] = _token_truthy


def _token_get(sx, obj, attr, args, kwargs, st, node):
    if attr != "get":
        return None
    key = z3.simplify(args[0].term)
    if not z3.is_string_value(key):
        raise Unsupported("token.get with symbolic key", node)
    k = key.as_string()
    dflt = args[1] if len(args) > 1 else NONE
    if k == "roles":
        has = z3.And(TOKEN.get(obj.term, "nonempty"), TOKEN.get(obj.term, "has_roles"))
        got = Val(ROLES, TOKEN.get(obj.term, "roles"))
        d = sx.deref(dflt, st)
        if isinstance(d.ty, V._None):
            t = V.Opt(ROLES)
            return [R(st, Val(t, z3.If(has, t.some(got.term), t.none())))]
        return [R(st, Val(ROLES, z3.If(has, got.term, d.term)))]
    if k == "pubkey":
        has = z3.And(TOKEN.get(obj.term, "nonempty"), TOKEN.get(obj.term, "has_pubkey"))
        t = V.Opt(V.Str)
        return [R(st, Val(t, z3.If(has, t.some(TOKEN.get(obj.term, "pubkey")), t.none())))]
    raise Unsupported("token.get(%r)" % k, node)


REG.hooks[("method", "Token")] = _token_get

REG.classes["Authenticator"] = {
    "log": lambda sx, st, name: LOGGER,
    "default_roles": ROLES,
    "actions": V.Dict(V.Str, ROLES),
    "is_enabled": V.Bool,
}
REG.classes["AuthenticatorUrlsList"] = {"__base__": "Authenticator", "valid_urls": URLS}
REG.classes["AuthenticatorUrlsStr"] = {"__base__": "Authenticator", "valid_urls": V.Str}

# ---------------------------------------------------------------------------------------------
# C15  check_auth_event
# ---------------------------------------------------------------------------------------------
REG.spec_funcs["url_listed"] = SpecFunc(REG, "url_listed", [("u", V.Str), ("urls", URLS)], V.Bool, """
def url_listed(u, urls):
    # u is one of the URLs the relay answers to
    return any_range(0, len(urls), lambda i: urls[i] == u)
""")
TAGS_OK = ("any_range(0, len(auth_event.tags), lambda i: auth_event.tags[i][0] == 'relay')"
           " and all_range(0, len(auth_event.tags), lambda i: implies(auth_event.tags[i][0] == 'relay', url_listed(auth_event.tags[i][1], URLS_OF_SELF)))"
           " and any_range(0, len(auth_event.tags), lambda i: auth_event.tags[i][0] == 'challenge')"
           " and all_range(0, len(auth_event.tags), lambda i: implies(auth_event.tags[i][0] == 'challenge', auth_event.tags[i][1] == challenge))")
AUTH_OK = ("event_verify(auth_event) and auth_event.kind == 22242"
           " and ghost('clock') - auth_event.created_at < 600 and ghost('clock') - auth_event.created_at > -600 and " + TAGS_OK)
SHAPE = "all_range(0, len(auth_event.tags), lambda i: len(auth_event.tags[i]) >= 2)"

INV = [
    ("found-relay", "found_relay == any_range(0, _k, lambda i: auth_event.tags[i][0] == 'relay')"),
    ("found-challenge", "found_challenge == any_range(0, _k, lambda i: auth_event.tags[i][0] == 'challenge')"),
    ("relay-tags-listed", "all_range(0, _k, lambda i: implies(auth_event.tags[i][0] == 'relay', url_listed(auth_event.tags[i][1], URLS_OF_SELF)))"),
    ("challenge-tags-match", "all_range(0, _k, lambda i: implies(auth_event.tags[i][0] == 'challenge', auth_event.tags[i][1] == challenge))"),
]


def check_auth_unit(cls, urls_expr, variant):
    def sub(s):
        return s.replace("URLS_OF_SELF", urls_expr)
    u = Unit(
        P, "Authenticator.check_auth_event",
        Contract("Authenticator.check_auth_event", {"self": V.ObjT(cls), "auth_event": EVENT, "challenge": V.Str},
                 ensures=[("accepted-only-if-fresh-signed-answer", sub(AUTH_OK)),
                          ("clock-monotone", "ghost('clock') >= old(ghost('clock'))")],
                 # a correct answer is never refused; a tag with fewer items than read makes the check fail with IndexError
                 raises={"AuthenticationError": sub("not (%s)" % AUTH_OK), "IndexError": "not (%s)" % SHAPE},
                 modifies=["ghost.clock"]),
        loops={"auth_event.tags": LoopSpec("tags", index="_k", invariants=[(n, sub(e)) for n, e in INV])},
        props=["C15"], setup=clock0,
        canaries=[("never-accepts", "False")],
    )
    u.ghost_const = ("clock",)
    return REG.unit(u)


check_auth_list = check_auth_unit("AuthenticatorUrlsList", "self.valid_urls", "urls-list")
# (relay_urls given as a single string is normalised to a one-element list by parse_options, which is not under contract:
# bounded/auth_enum.py builds the real Authenticator from every spelling of relay_urls -- fix 9ae5ec6)

# ---------------------------------------------------------------------------------------------
# C14  can_do
# ---------------------------------------------------------------------------------------------
@REG.method("Authenticator", "evaluate_target", frame=[])
def _evaluate_target(sx, args, kwargs, st, node):
    """evaluate_target (ASSUMED at this call site; it has its own trivial body): some boolean"""
    return [R(st, Val(V.Bool, z3.Bool(fresh_name("target_ok"))))]


ROLES_OF = "(auth_token.roles if (auth_token is not None and auth_token.nonempty and auth_token.has_roles) else self.default_roles)"
CAN = ("(not self.is_enabled) or (action not in self.actions) or "
       "exists(lambda r: r in self.actions[action] and r in %s, r=Str)" % ROLES_OF)
REG.unit(Unit(
    P, "Authenticator.can_do",
    Contract("Authenticator.can_do", {"self": V.ObjT("AuthenticatorUrlsList"), "auth_token": V.Opt(TOKEN), "action": V.Str, "target": V.NoneT},
             ensures=[("allowed-iff-roles-intersect", "result == (%s)" % CAN)],
             returns=V.Bool),
    props=["C14"], setup=clock0, canaries=[("always-allowed", "result")],
))


# ---------------------------------------------------------------------------------------------
# C15  authenticate: a token is returned only after check_auth_event accepted the event built from the payload
# ---------------------------------------------------------------------------------------------
def event_from_json(sx, jv, st):
    """aionostr Event(**payload) (from the installed source): TypeError for unexpected keys / non-str content;
    otherwise fields are taken from the payload as they are (no type coercion except int(kind))"""
    j = B.J()
    ev = sx.fresh(EVENT, "event", st)
    for f in ("id", "pubkey", "content", "sig"):
        item = j["get"](jv.term, z3.StringVal(f))
        st.assume(z3.Implies(z3.And(j["has"](jv.term, z3.StringVal(f)), j["kind"](item) == B.JSTR), EVENT.get(ev.term, f) == j["str"](item)))
    for f in ("created_at", "kind"):
        item = j["get"](jv.term, z3.StringVal(f))
        st.assume(z3.Implies(z3.And(j["has"](jv.term, z3.StringVal(f)), j["kind"](item) == B.JINT), EVENT.get(ev.term, f) == j["int"](item)))
    # the kind Event() computes from the payload (int(kind); default TEXT_NOTE) as a function of the payload
    st.assume(EVENT.get(ev.term, "kind") == PAYLOAD_KIND(jv.term))
    return ev


PAYLOAD_KIND = REG.ufun("payload_kind", [V.Json.sort()], z3.IntSort())


@REG.model("payload_kind")
def _payload_kind(sx, args, kwargs, st, node):
    return [R(st, Val(V.Int, PAYLOAD_KIND(args[0].term)))]


from pyvc import builtins as B  # noqa: E402
import ast as _ast  # noqa: E402


def _star_call(sx, node, st):
    # Event(**json)
    if isinstance(node.func, _ast.Name) and node.func.id == "Event" and not node.args and len(node.keywords) == 1 and node.keywords[0].arg is None:
        outs = []
        for r in sx.ev(node.keywords[0].value, st):
            if r.exc is not None:
                outs.append(r)
                continue
            s = r.st
            jv = r.val
            if not (isinstance(jv, Val) and isinstance(jv.ty, V._Json)):
                raise Unsupported("Event(**x) with x not a JSON value", node)
            s2 = s.fork()
            outs.append(R(s2, None, Exc("TypeError")))
            ev = event_from_json(sx, jv, s)
            s.ghost["constructed_event"] = ev
            outs.append(R(s, ev))
        return outs
    return None


REG.__dict__.setdefault('star_call_hooks', []).append(_star_call)
REG.classes["AuthStorage"] = {}


@REG.method("AuthStorage", "get_auth_roles", frame=[])
def _get_auth_roles(sx, args, kwargs, st, node):
    return [R(st, sx.fresh(ROLES, "roles", st)), R(st.fork(), None, Exc("EngineError", exact=False))]


REG.classes["AuthenticatorUrlsList"]["storage"] = V.ObjT("AuthStorage")
CE = "ghost('constructed_event')"
REG.unit(Unit(
    P, "Authenticator.authenticate",
    Contract("Authenticator.authenticate", {"self": V.ObjT("AuthenticatorUrlsList"), "auth_event_json": V.Json, "challenge": V.Str},
             ensures=[
                 # "within ten minutes of now" for a clock value read during the call
                 ("token-only-after-accepted-answer",
                  AUTH_OK.replace("ghost('clock') - auth_event.created_at < 600", "old(ghost('clock')) - auth_event.created_at < 600")
                  .replace("auth_event", CE).replace("URLS_OF_SELF", "self.valid_urls")),
                 ("token-names-the-signer", "result['pubkey'] == %s.pubkey" % CE),
             ],
             raises={"AuthenticationError": True, "TypeError": True, "IndexError": True, "EngineError+": True}),
    props=["C15"],
    setup=lambda sx, st, params: (clock0(sx, st, params), st.ghost.__setitem__("constructed_event", sx.fresh(EVENT, "no_event", st))),
    canaries=[("never-returns", "False")],
)).ghost_const = ()


# ---------------------------------------------------------------------------------------------
# C15  get_challenge: 128 fresh random bits per call (unpredictability itself is the contract of `secrets`)
# ---------------------------------------------------------------------------------------------
class SecretsModule:
    def __pyvc_getattr__(self, sx, attr, st, node):
        if attr == "token_hex":
            def th(sx2, a, k, s, n):
                """secrets.token_hex(n) (ASSUMED): 2n lowercase hex characters carrying 8n unpredictable bits, independent of all earlier values"""
                nbytes = a[0].term if a else z3.IntVal(32)
                r = sx2.fresh(V.Str, "token_hex", s)
                s.assume(z3.Length(r.term) == 2 * nbytes)
                s.ghost["random_bits"] = Val(V.Int, 8 * nbytes)
                s.ghost["random_value"] = r
                return [R(s, r)]
            return [R(st, Func(th, "secrets.token_hex"))]
        raise Unsupported("secrets.%s" % attr, node)


REG.globals["secrets"] = Conc(SecretsModule())


def _setup_challenge(sx, st, params):
    st.ghost["random_bits"] = V.mk_int(0)
    st.ghost["random_value"] = V.mk_str("")


REG.unit(Unit(
    P, "Authenticator.get_challenge",
    Contract("Authenticator.get_challenge", {"self": V.ObjT("AuthenticatorUrlsList"), "remote_addr": V.Str},
             ensures=[("challenge-is-128-fresh-random-bits", "ghost('random_bits') >= 128 and result == ghost('random_value')")],
             returns=V.Str),
    props=["C15"], setup=_setup_challenge, canaries=[("constant-challenge", "result == ''")],
))
