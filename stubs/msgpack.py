"""
In-memory stand-in for `msgpack` (not installed): round trip with msgpack's observable type mapping for the shapes kv.py uses --
lists/tuples become tuples when unpacked with use_list=False, str/bytes/int/bool/None/float preserved, integers limited to
64 bits (OverflowError beyond).  ASSUMED contract on a dependency; used by witnesses/bounded checks only.
"""
import pickle


def _check(o):
    if isinstance(o, bool) or o is None or isinstance(o, (str, bytes, float)):
        return o
    if isinstance(o, int):
        if not (-(2 ** 63) <= o < 2 ** 64):
            raise OverflowError("Integer value out of range")
        return o
    if isinstance(o, (list, tuple)):
        return tuple(_check(x) for x in o)
    if isinstance(o, dict):
        return {_check(k): _check(v) for k, v in o.items()}
    if isinstance(o, memoryview):
        return bytes(o)
    raise TypeError("can not serialize %r object" % type(o).__name__)


def packb(o, use_bin_type=True, **kw):
    return pickle.dumps(_check(o))


def _listify(o):
    if isinstance(o, tuple):
        return [_listify(x) for x in o]
    return o


def unpackb(b, use_list=True, raw=False, **kw):
    if b is None:
        raise TypeError("a bytes-like object is required, not 'NoneType'")
    o = pickle.loads(bytes(b))
    return _listify(o) if use_list else o
