"""
In-memory stand-in for the `lmdb` package (not installed in this sandbox) -- an ASSUMED contract on a dependency, used only by
/verif witnesses, replay and bounded stand-ins (never by /repo's own test run).  Ordered byte-string map; write transactions
are copy-on-write and abort on exception; keys longer than 511 bytes raise BadValsizeError; cursor semantics follow py-lmdb:
set_range(k) positions at the first key >= k (False if none), prev()/next() move and return False at the ends, key() returns the
current key (b'' if unpositioned), iternext()/iterprev() iterate from the current position.
"""
import bisect


class Error(Exception):
    pass


class BadValsizeError(Error):
    pass


class Environment:
    MAX_KEY = 511

    def __init__(self, **options):
        self.data = {}
        self.options = options
        self.closed = False

    def begin(self, write=False, buffers=False, **kw):
        return Transaction(self, write, buffers)

    def stat(self):
        return {"entries": len(self.data)}

    def close(self):
        self.closed = True

    def __enter__(self):
        return self

    def __exit__(self, *a):
        self.close()


def open(**options):
    return Environment(**options)


class Transaction:
    def __init__(self, env, write, buffers):
        self.env = env
        self.write = write
        self.buffers = buffers
        self.data = dict(env.data) if write else env.data
        self._snapshot = dict(env.data) if not write else None
        self.done = False

    def _view(self):
        return self.data if self.write else self._snapshot

    def __enter__(self):
        return self

    def __exit__(self, et, ev, tb):
        if et is None:
            self.commit()
        else:
            self.abort()
        return False

    def commit(self):
        if self.write and not self.done:
            self.env.data = self.data
        self.done = True

    def abort(self):
        self.done = True

    def _check_key(self, key):
        key = bytes(key)
        if len(key) == 0 or len(key) > Environment.MAX_KEY:
            raise BadValsizeError("mdb_put: MDB_BAD_VALSIZE: Unsupported size of key/DB name/data, or wrong DUPFIXED size")
        return key

    def put(self, key, value, **kw):
        if not self.write:
            raise Error("read-only transaction")
        key = self._check_key(key)
        self.data[key] = bytes(value)
        return True

    def delete(self, key, value=b""):
        if not self.write:
            raise Error("read-only transaction")
        return self.data.pop(bytes(key), None) is not None

    def get(self, key, default=None):
        v = self._view().get(bytes(key), default)
        if v is not None and self.buffers:
            return memoryview(v)
        return v

    def cursor(self):
        return Cursor(self)


class Cursor:
    def __init__(self, txn):
        self.txn = txn
        self.keys = sorted(txn._view().keys())
        self.pos = None

    def _refresh(self):
        self.keys = sorted(self.txn._view().keys())

    def __enter__(self):
        return self

    def __exit__(self, *a):
        self.close()

    def close(self):
        pass

    def set_range(self, key):
        self._refresh()
        i = bisect.bisect_left(self.keys, bytes(key))
        if i >= len(self.keys):
            self.pos = None
            return False
        self.pos = i
        return True

    def first(self):
        self._refresh()
        if not self.keys:
            self.pos = None
            return False
        self.pos = 0
        return True

    def last(self):
        self._refresh()
        if not self.keys:
            self.pos = None
            return False
        self.pos = len(self.keys) - 1
        return True

    def prev(self):
        if self.pos is None:
            return self.last()
        if self.pos == 0:
            self.pos = None
            return False
        self.pos -= 1
        return True

    def next(self):
        if self.pos is None:
            return self.first()
        if self.pos + 1 >= len(self.keys):
            self.pos = None
            return False
        self.pos += 1
        return True

    def key(self):
        if self.pos is None:
            return b""
        k = self.keys[self.pos]
        return memoryview(k) if self.txn.buffers else k

    def value(self):
        if self.pos is None:
            return b""
        return self.txn._view()[self.keys[self.pos]]

    def iternext(self, keys=True, values=True):
        if self.pos is None:
            if not self.first():
                return
        while True:
            k = self.keys[self.pos]
            if keys and values:
                yield k, self.txn._view()[k]
            elif keys:
                yield k
            else:
                yield self.txn._view()[k]
            if not self.next():
                return

    def iterprev(self, keys=True, values=True):
        if self.pos is None:
            if not self.last():
                return
        while True:
            k = self.keys[self.pos]
            if keys and values:
                yield k, self.txn._view()[k]
            elif keys:
                yield k
            else:
                yield self.txn._view()[k]
            if not self.prev():
                return
