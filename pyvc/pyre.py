"""
pyvc.pyre -- python `re` patterns (a stated subset) as z3 regular expressions, via the stdlib pattern parser.
Supported: literals, character classes and ranges, ., \\d \\w \\s (ASCII), * + ? {m,n}, groups, alternation, ^ $ anchors
at the ends.  Anything else raises Unsupported (-> UNDECIDED, never a violation).
"""
import z3

try:
    import re._parser as sre_parse
    import re._constants as C
except ImportError:  # py < 3.11
    import sre_parse
    import sre_constants as C

from .sx import Unsupported

ANYCHAR = z3.Range(chr(0), chr(0x2FFFF))


def _cat(name):
    if name == C.CATEGORY_DIGIT:
        return z3.Range("0", "9")
    if name == C.CATEGORY_WORD:
        return z3.Union(z3.Range("0", "9"), z3.Range("a", "z"), z3.Range("A", "Z"), z3.Re(z3.StringVal("_")))
    if name == C.CATEGORY_SPACE:
        return z3.Union(*[z3.Re(z3.StringVal(c)) for c in " \t\n\r\f\v"])
    raise Unsupported("regex category %s" % name)


def _set(items):
    neg = False
    parts = []
    for op, av in items:
        if op == C.NEGATE:
            neg = True
        elif op == C.LITERAL:
            parts.append(z3.Re(z3.StringVal(chr(av))))
        elif op == C.RANGE:
            parts.append(z3.Range(chr(av[0]), chr(av[1])))
        elif op == C.CATEGORY:
            parts.append(_cat(av))
        else:
            raise Unsupported("regex class item %s" % op)
    u = parts[0] if len(parts) == 1 else z3.Union(*parts)
    if neg:
        return z3.Intersect(ANYCHAR, z3.Complement(u))
    return u


def _seq(items):
    """-> (regex, anchored_start, anchored_end)"""
    rs = []
    a0 = a1 = False
    n = len(items)
    for idx, (op, av) in enumerate(items):
        if op == C.AT:
            if av in (C.AT_BEGINNING, C.AT_BEGINNING_STRING) and idx == 0:
                a0 = True
                continue
            if av in (C.AT_END, C.AT_END_STRING) and idx == n - 1:
                a1 = True
                continue
            raise Unsupported("regex anchor inside the pattern")
        rs.append(_one(op, av))
    if not rs:
        r = z3.Re(z3.StringVal(""))
    elif len(rs) == 1:
        r = rs[0]
    else:
        r = z3.Concat(*rs)
    return r, a0, a1


def _plain(items):
    r, a0, a1 = _seq(items)
    if a0 or a1:
        raise Unsupported("regex anchor inside a group")
    return r


def _one(op, av):
    if op == C.LITERAL:
        return z3.Re(z3.StringVal(chr(av)))
    if op == C.NOT_LITERAL:
        return z3.Intersect(ANYCHAR, z3.Complement(z3.Re(z3.StringVal(chr(av)))))
    if op == C.ANY:
        return z3.Intersect(ANYCHAR, z3.Complement(z3.Re(z3.StringVal("\n"))))
    if op == C.IN:
        return _set(av)
    if op == C.CATEGORY:
        return _cat(av)
    if op in (C.MAX_REPEAT, C.MIN_REPEAT):
        lo, hi, sub = av
        r = _plain(list(sub))
        if hi == C.MAXREPEAT:
            if lo == 0:
                return z3.Star(r)
            if lo == 1:
                return z3.Plus(r)
            return z3.Concat(z3.Loop(r, lo, lo), z3.Star(r))
        return z3.Loop(r, lo, hi)
    if op == C.SUBPATTERN:
        return _plain(list(av[-1]))
    if op == C.BRANCH:
        alts = [_plain(list(a)) for a in av[1]]
        return z3.Union(*alts) if len(alts) > 1 else alts[0]
    raise Unsupported("regex construct %s" % op)


def compile_pattern(pattern, flags=0):
    if flags:
        raise Unsupported("regex flags")
    p = sre_parse.parse(pattern)
    return _seq(list(p))


def match_term(pattern, s, mode):
    """z3 Bool: does re.<mode>(pattern, s) find a match?  mode in match|fullmatch|search"""
    r, a0, a1 = compile_pattern(pattern)
    anyS = z3.Star(ANYCHAR)
    if mode == "fullmatch":
        full = r
    elif mode == "match":
        full = r if a1 else z3.Concat(r, anyS)
    else:
        pre = z3.Re(z3.StringVal("")) if a0 else anyS
        post = z3.Re(z3.StringVal("")) if a1 else anyS
        full = z3.Concat(pre, r, post)
    # NB: `$` also matches before a trailing newline in python; patterns using it on data that may end in \\n
    # are reported with that caveat in DESIGN.md
    return z3.InRe(s, full)
