"""
pyvc.sx -- path-sensitive symbolic executor / VC generator for a stated Python subset.

The executor walks the `ast` of a *real* function re-read from /repo on every run.
Callees are never entered: a call is resolved to (a) a builtin modelled in
pyvc.builtins, (b) a closure defined inside the function under verification (inlined),
(c) the declarative contract of another function under contract (assert pre, havoc
frame, assume post), or (d) a trusted *model function* from the sidecar (an assumed
contract on a dependency).  Anything else is a front-end error (UNDECIDED), never a
violation.

Loops are cut by invariants from the sidecar (default invariant: True), so generated
obligations quantify over all iteration counts.
"""
import ast
import itertools
import z3

from . import vals as V
from .vals import Val, Ref, Func, Conc, NONE


class Unsupported(Exception):
    def __init__(self, msg, node=None):
        self.msg = msg
        self.node = node
        super().__init__(msg)


class Exc:
    """a python exception value travelling along a raise edge"""

    def __init__(self, cls, msg=None, exact=True, excluding=()):
        self.cls = cls  # class name (last component)
        self.msg = msg  # Val or None
        self.exact = exact  # False: "some (unknown) subclass of cls, or cls itself"
        self.excluding = tuple(excluding)  # classes the unknown exception is known NOT to be an instance of

    def __repr__(self):
        return "Exc(%s%s)" % (self.cls, "" if self.exact else "+")


# exception class lattice (child -> parent).  BaseException is the root.
EXC_PARENT = {
    "Exception": "BaseException",
    "CancelledError": "BaseException",  # asyncio.CancelledError (py>=3.8)
    "KeyboardInterrupt": "BaseException",
    "GeneratorExit": "BaseException",
    "ArithmeticError": "Exception",
    "OverflowError": "ArithmeticError",
    "ZeroDivisionError": "ArithmeticError",
    "LookupError": "Exception",
    "IndexError": "LookupError",
    "KeyError": "LookupError",
    "ValueError": "Exception",
    "NameError": "Exception",
    "UnboundLocalError": "NameError",
    "UnicodeError": "ValueError",
    "UnicodeEncodeError": "UnicodeError",
    "UnicodeDecodeError": "UnicodeError",
    "JSONDecodeError": "ValueError",
    "ValidationError": "ValueError",
    "TypeError": "Exception",
    "AttributeError": "Exception",
    "AssertionError": "Exception",
    "RuntimeError": "Exception",
    "NotImplementedError": "RuntimeError",
    "StopIteration": "Exception",
    "OSError": "Exception",
    "ConnectionError": "OSError",
    "IncompleteReadError": "Exception",  # asyncio.IncompleteReadError(EOFError)
    "TimeoutError": "OSError",  # asyncio.TimeoutError is TimeoutError on 3.11+
    "StorageError": "Exception",
    "AuthenticationError": "Exception",
    "VerificationError": "Exception",
    "WebSocketDisconnected": "ConnectionError",
    "ConnectionClosedError": "Exception",
    "ConnectionClosedOK": "Exception",
    "IntegrityError": "Exception",
    "OperationalError": "Exception",
    "ProgrammingError": "Exception",
    "EngineError": "Exception",  # any failure of the storage engine (model)
    "Full": "Exception",
    "BadValsizeError": "EngineError",
}


def is_subclass(c, p):
    while c is not None:
        if c == p:
            return True
        c = EXC_PARENT.get(c)
    return False


class State:
    __slots__ = ("frames", "heap", "pc", "ghost", "nextcell", "notes")

    def __init__(self):
        self.frames = [{}]
        self.heap = {}
        self.pc = []
        self.ghost = {}
        self.nextcell = [0]
        self.notes = []

    @property
    def env(self):
        return self.frames[-1]

    def fork(self):
        s = State()
        s.frames = [dict(f) for f in self.frames]
        s.heap = {k: (dict(v) if isinstance(v, dict) else v) for k, v in self.heap.items()}
        s.pc = list(self.pc)
        s.ghost = dict(self.ghost)
        if "__ne_cache" in s.ghost:
            s.ghost["__ne_cache"] = Conc(dict(s.ghost["__ne_cache"].v))
        s.nextcell = self.nextcell  # shared counter: fresh ids stay unique
        s.notes = list(self.notes)
        return s

    def assume(self, cond):
        if cond is not None and not z3.is_true(cond):
            self.pc.append(cond)
        return self

    def alloc(self, content):
        self.nextcell[0] += 1
        c = self.nextcell[0]
        self.heap[c] = content
        return c

    def getcell(self, cell):
        c = self.heap[cell]
        if isinstance(c, View):
            return c.get(self)
        return c

    def setcell(self, cell, val):
        c = self.heap.get(cell)
        if isinstance(c, View):
            c.set(self, val)
        else:
            self.heap[cell] = val


class View:
    """a heap cell that is a window onto a location inside another value (e.g. d[k1][k2]):
    reads and writes go through to the parent, so all aliases stay coherent"""

    def __init__(self, get, set):
        self.get = get
        self.set = set


class Out:
    """outcome of executing a statement list"""

    __slots__ = ("kind", "val", "st")

    def __init__(self, kind, st, val=None):
        self.kind = kind  # 'normal' | 'return' | 'raise' | 'break' | 'continue'
        self.st = st
        self.val = val

    def __repr__(self):
        return "Out(%s,%r)" % (self.kind, self.val)


class R:
    """result of evaluating an expression on one path"""

    __slots__ = ("val", "st", "exc")

    def __init__(self, st, val=None, exc=None):
        self.st = st
        self.val = val
        self.exc = exc


class Unknown:
    """A value no contract says anything about: the result of calling / reading something that has neither a contract nor a
    model (a helper added to the repository, a library function nobody modelled).  Modular semantics: the callee's contract is
    `true` -- any result, any exception, any effect on the reachable heap.  Obligations that need more than that fail."""

    def __init__(self, why):
        self.why = why

    def __repr__(self):
        return "<unknown %s>" % self.why

    def __pyvc_getattr__(self, sx, attr, st, node):
        return [R(st, Conc(Unknown(self.why + "." + attr)))]

    def __pyvc_getitem__(self, sx, k, st, node):
        # an item of a value nothing is known about: some value, or the lookup fails
        return [R(st, Conc(Unknown(self.why + "[...]"))), R(st.fork(), None, Exc("Exception", exact=False))]

    def __pyvc_call__(self, sx, args, kwargs, st, node):
        sx.uncontracted.append("%s (line %s)" % (self.why, getattr(node, "lineno", "?")))
        if sx.spec_mode:
            # element / condition of a comprehension of the real code (evaluated once, symbolically, without effects): some value
            t = V.Opaque("unknown")
            return [R(st, Val(t, z3.Const(fresh_name("unknown"), t.sort())))]
        for cell in list(st.heap):
            if cell not in sx.frozen_cells(st):
                sx.havoc_cell(cell, st)
        sx.reg.havoc_ghost_for_unknown_call(sx, st)
        bad = st.fork()
        return [R(st, Conc(Unknown(self.why + "()"))), R(bad, None, Exc("Exception", exact=False))]

    def __pyvc_iter__(self, sx, st, node):
        return ("opaque", _UnknownIter(self))


class _UnknownIter:
    def __init__(self, u):
        self.u = u

    def next(self, sx, st, k):
        return [R(st, Conc(Unknown(self.u.why + "[*]"))), R(st.fork(), None, Exc("Exception", exact=False))]


class MaybeUnbound:
    """binding of a local that is assigned only inside a loop body, as seen at the loop head"""

    def __init__(self, name):
        self.name = name

    def __repr__(self):
        return "<maybe-unbound %s>" % self.name


class Obligation:
    def __init__(self, name, kind, hyps, claim, loc, props=None, note=""):
        self.name = name
        self.kind = kind
        self.hyps = hyps
        self.claim = claim
        self.loc = loc
        self.props = props
        self.note = note
        self.status = None
        self.model = None
        self.backend = None
        self.seconds = 0.0
        self.reason = ""


_fresh_counter = itertools.count()


def fresh_name(base):
    return "%s!%d" % (base, next(_fresh_counter))


class SX:
    def __init__(self, unit, registry, feas_timeout_ms=1000):
        self.unit = unit
        self.reg = registry
        self.obligations = []
        self.feas_timeout = feas_timeout_ms
        self.spec_mode = 0
        self.code_comp = 0   # >0 while the element of a comprehension of the REAL code is evaluated (in spec mode, without effects)
        self.covers = []  # (name, hyps) reachability queries
        self.nfeas = 0
        self.loop_ordinal = 0
        self.hole_ordinal = 0
        self.yield_hook = None
        self.cur_func = None
        self.warnings = []
        self.call_depth = 0
        self._qcache = {}
        self._scache = {}
        self._capture_calls = set()
        self.uncontracted = []
        self.keep_states = False
        from . import builtins as B

        self.B = B

    # ------------------------------------------------------------------ utilities
    def _quantified(self, e):
        k = e.get_id()
        r = self._qcache.get(k)
        if r is None:
            r = False
            stack = [e]
            seen = set()
            while stack:
                x = stack.pop()
                if x.get_id() in seen:
                    continue
                seen.add(x.get_id())
                if z3.is_quantifier(x):
                    r = True
                    break
                stack.extend(x.children())
            self._qcache[k] = (e, r)
            return r
        return r[1]

    def _stringy(self, e):
        """does the term mention the theory of strings / regular expressions?"""
        k = e.get_id()
        hit = self._scache.get(k)
        if hit is not None and hit[0].eq(e):
            return hit[1]
        r = False
        stack, seen = [e], set()
        while stack:
            x = stack.pop()
            if x.get_id() in seen:
                continue
            seen.add(x.get_id())
            if z3.is_quantifier(x):
                stack.append(x.body())
                continue
            srt = x.sort()
            if srt.kind() in (z3.Z3_SEQ_SORT, z3.Z3_RE_SORT):
                r = True
                break
            if z3.is_app(x):
                stack.extend(x.children())
        self._scache[k] = (e, r)
        return r

    def feasible(self, st, cond=None):
        # path pruning only: quantified hypotheses are left out (fewer hypotheses = never fewer paths)
        self.nfeas += 1
        ground = [p for p in st.pc if not self._quantified(p)]
        if cond is not None and not self._stringy(cond):
            # a condition that does not speak about strings: decide it without the string facts of the path first (z3's sequence
            # solver is slow even on satisfiable queries).  unsat with fewer hypotheses is unsat; sat is taken as feasible --
            # at worst a dead path is explored, whose obligations are then discharged from its contradictory hypotheses.
            s = z3.Solver()
            s.set("timeout", self.feas_timeout)
            for p in ground:
                if not self._stringy(p):
                    s.add(p)
            s.add(cond)
            return s.check() != z3.unsat
        s = z3.Solver()
        s.set("timeout", self.feas_timeout)
        for p in ground:
            s.add(p)
        if cond is not None:
            s.add(cond)
        return s.check() != z3.unsat

    def oblige(self, st, name, claim, kind="assert", node=None, note="", props=None):
        """record an obligation `pc => claim`, then continue under the assumption"""
        if self.spec_mode:
            return
        loc = getattr(node, "lineno", None)
        if z3.is_true(claim):
            # trivially true claims are still counted (they come from real code points)
            pass
        hyps = list(st.pc)
        hints = getattr(self.unit, "hints", None) or {}
        for key, exprs in hints.items():
            if key in name:
                for e in exprs:
                    try:
                        hyps.append(self.eval_spec(e, st))
                    except Unsupported as ex:
                        self.warnings.append("hint %r not applicable at %s: %s" % (e, name, ex.msg))
        ob = Obligation(name, kind, hyps, claim, loc, props=props, note=note)
        ob.st = st.fork() if self.keep_states else None
        self.obligations.append(ob)
        st.assume(claim)

    def cover(self, st, name):
        self.covers.append((name, list(st.pc)))

    def unsupported(self, msg, node=None):
        raise Unsupported(msg, node)

    # ------------------------------------------------------------------ truthiness, equality
    def truthy(self, v, st=None):
        """z3 Bool for python truthiness of v"""
        if isinstance(v, Ref):
            content = st.getcell(v.cell)
            if isinstance(content, dict):
                return z3.BoolVal(True)  # plain objects are truthy
            if isinstance(content, tuple):
                return z3.BoolVal(False)  # untyped empty list/set/dict literal
            return self.truthy(content, st)
        if isinstance(v, Conc) and isinstance(v.v, Unknown):
            return z3.Bool(fresh_name("unknown_truth"))
        if isinstance(v, Conc):
            return z3.BoolVal(bool(v.v))
        if isinstance(v, Func):
            return z3.BoolVal(True)
        t = v.ty
        if isinstance(t, V._Bool):
            return v.term
        if isinstance(t, V._Int):
            return v.term != 0
        if isinstance(t, V._Real):
            return v.term != 0
        if isinstance(t, (V._Str, V._Bytes)):
            return z3.Length(v.term) > 0
        if isinstance(t, V._None):
            return z3.BoolVal(False)
        if isinstance(t, V.Opt):
            inner = self.truthy(Val(t.inner, t.get(v.term)), st)
            return z3.And(z3.Not(t.is_none(v.term)), inner)
        if isinstance(t, V.List):
            return t.n(v.term) > 0
        if isinstance(t, V.Tuple):
            return z3.BoolVal(len(t.items) > 0)
        if isinstance(t, V.Set):
            if isinstance(t.elem, V._Bool):
                return z3.Or(z3.Select(v.term, True), z3.Select(v.term, False))
            return self.set_nonempty(v, st)
        if isinstance(t, V.Dict):
            return t.size(v.term) > 0
        if isinstance(t, V.Rec):
            h = self.reg.hooks.get(("truthy", t.rname))
            if h is not None:
                return h(self, v, st)
            return z3.BoolVal(True)
        if isinstance(t, V._Json):
            return self.B.json_truthy(v.term)
        if isinstance(t, V.Opaque) and t._n == "unknown":
            return z3.Function("unknown_truth", t.sort(), z3.BoolSort())(v.term)   # arbitrary, but the same for the same value
        if isinstance(t, V.Opaque):
            return z3.BoolVal(True)
        self.unsupported("truthiness of %r" % (t,))

    def set_nonempty(self, v, st):
        """`bool(set)` without quantifier alternation and without functions over array sorts:
        structural where the set was built by the engine (empty literal, add, union, intersection), otherwise a
        fresh Boolean tied to membership by a witness (ne -> s[w]) and by  forall x. s[x] -> ne  (triggered on s[x])"""
        t = v.ty
        if v.aux and "ne" in v.aux:
            return v.aux["ne"]
        term = z3.simplify(v.term)
        if z3.is_const_array(term):
            return z3.BoolVal(z3.is_true(term.arg(0)))
        if z3.is_store(term) and z3.is_true(term.arg(2)):
            return z3.BoolVal(True)
        x = z3.Const("ne_x", t.elem.sort())
        if st is None:
            return z3.Exists([x], z3.Select(v.term, x))
        cache = st.ghost.setdefault("__ne_cache", Conc({}))
        key = v.term.sexpr()
        if key in cache.v:
            return cache.v[key]
        ne = z3.Bool(fresh_name("nonempty"))
        w = z3.Const(fresh_name("witness"), t.elem.sort())
        st.assume(z3.Implies(ne, z3.Select(v.term, w)))
        try:
            st.assume(z3.ForAll([x], z3.Implies(z3.Select(v.term, x), ne), patterns=[z3.Select(v.term, x)]))
        except z3.Z3Exception:
            st.assume(z3.ForAll([x], z3.Implies(z3.Select(v.term, x), ne)))
        cache.v[key] = ne
        return ne

    def deref(self, v, st):
        """Ref to a mutable container -> its current immutable Val"""
        if isinstance(v, Ref):
            c = st.getcell(v.cell)
            if isinstance(c, dict):
                return v
            return c
        return v

    def eq(self, a, b, st):
        """z3 Bool for python a == b"""
        a = self.deref(a, st)
        b = self.deref(b, st)
        if isinstance(a, Ref) or isinstance(b, Ref):
            if isinstance(a, Ref) and isinstance(b, Ref):
                return z3.BoolVal(a.cell == b.cell)
            return z3.BoolVal(False)
        if isinstance(a, Conc) or isinstance(b, Conc):
            if isinstance(a, Conc) and isinstance(b, Conc):
                return z3.BoolVal(a.v == b.v)
            # concrete tuple vs symbolic etc: lift
            a = self.lift(a)
            b = self.lift(b)
        if isinstance(a, Func) or isinstance(b, Func):
            return z3.BoolVal(a is b)
        ta, tb = a.ty, b.ty
        if isinstance(ta, V._None) or isinstance(tb, V._None):
            if isinstance(ta, V._None) and isinstance(tb, V._None):
                return z3.BoolVal(True)
            o, other = (b, a) if isinstance(ta, V._None) else (a, b)
            if isinstance(o.ty, V.Opt):
                return o.ty.is_none(o.term)
            if isinstance(o.ty, V._Json):
                return self.B.json_is_null(o.term)
            return z3.BoolVal(False)
        if isinstance(ta, V.Opt) and not isinstance(tb, V.Opt):
            return z3.And(z3.Not(ta.is_none(a.term)), self.eq(Val(ta.inner, ta.get(a.term)), b, st))
        if isinstance(tb, V.Opt) and not isinstance(ta, V.Opt):
            return self.eq(b, a, st)
        num = (V._Int, V._Real, V._Bool)
        if isinstance(ta, num) and isinstance(tb, num):
            return self.num(a) == self.num(b) if not (isinstance(ta, V._Bool) and isinstance(tb, V._Bool)) else a.term == b.term
        if isinstance(ta, (V._Str,)) and isinstance(tb, (V._Str,)):
            return a.term == b.term
        if isinstance(ta, (V._Bytes,)) and isinstance(tb, (V._Bytes,)):
            return a.term == b.term
        if isinstance(ta, V.List) and isinstance(tb, V.List) and ta.elem == tb.elem:
            return self.list_eq(a, b)
        if isinstance(ta, V.Tuple) and isinstance(tb, V.List):
            return self.eq(b, a, st)
        if isinstance(ta, V.List) and isinstance(tb, V.Tuple):
            conj = [ta.n(a.term) == len(tb.items)]
            for i, it in enumerate(tb.items):
                conj.append(self.eq(Val(ta.elem, ta.at(a.term, i)), Val(it, tb.field(b.term, i)), st))
            return z3.And(*conj)
        if isinstance(ta, V.Tuple) and isinstance(tb, V.Tuple):
            if len(ta.items) != len(tb.items):
                return z3.BoolVal(False)
            return z3.And(
                *[
                    self.eq(Val(x, ta.field(a.term, i)), Val(y, tb.field(b.term, i)), st)
                    for i, (x, y) in enumerate(zip(ta.items, tb.items))
                ]
            ) if ta.items else z3.BoolVal(True)
        if ta == tb:
            return a.term == b.term
        if isinstance(ta, V._Json) or isinstance(tb, V._Json):
            j, o = (a, b) if isinstance(ta, V._Json) else (b, a)
            return self.B.json_eq(self, j, o)
        # values of unrelated python types never compare equal
        return z3.BoolVal(False)

    def list_eq(self, a, b):
        t = a.ty
        i = z3.Int(fresh_name("le"))
        return z3.And(
            t.n(a.term) == t.n(b.term),
            z3.ForAll([i], z3.Implies(z3.And(i >= 0, i < t.n(a.term)), t.at(a.term, i) == t.at(b.term, i))),
        )

    def num(self, v):
        if isinstance(v.ty, V._Bool):
            return z3.If(v.term, 1, 0)
        return v.term

    def lift(self, v):
        """Conc python literal -> symbolic Val"""
        if not isinstance(v, Conc):
            return v
        x = v.v
        if x is None:
            return NONE
        if isinstance(x, bool):
            return V.mk_bool(x)
        if isinstance(x, int):
            return V.mk_int(x)
        if isinstance(x, float):
            return Val(V.Real, z3.RealVal(repr(x)))
        if isinstance(x, str):
            return V.mk_str(x)
        if isinstance(x, bytes):
            return V.mk_bytes(x)
        if isinstance(x, tuple) and all(isinstance(i, Val) for i in x):
            items = [self.lift(i) for i in x]
            if any(isinstance(i, (Ref, Func, Conc)) or i.ty is None or isinstance(i.ty, V._None) for i in items):
                self.unsupported("cannot lift a tuple holding references")
            t = V.Tuple(*[i.ty for i in items])
            return Val(t, t.mk(*[i.term for i in items]))
        if isinstance(x, Unknown):
            # a value without any contract, used as data: an arbitrary element of an uninterpreted sort
            t = V.Opaque("unknown")
            return Val(t, z3.Const(fresh_name("unknown"), t.sort()))
        self.unsupported("cannot lift concrete %r" % (x,))

    # ---- regular-language abstraction of string values (used for "holes" in generated SQL / JSON / python text)
    ALLSTR = None

    def str_class(self, v, st):
        """a z3 regular expression over-approximating the string value v on this path"""
        if SX.ALLSTR is None:
            SX.ALLSTR = z3.Full(z3.ReSort(z3.StringSort()))
        if isinstance(v, Conc):
            v = self.lift(v)
        if not isinstance(v, Val) or v.term is None or not isinstance(v.ty, (V._Str, V._Bytes)):
            return SX.ALLSTR
        if v.aux and "re" in v.aux:
            return v.aux["re"]
        t = z3.simplify(v.term)
        if z3.is_string_value(t):
            return z3.Re(t)
        found = []
        def scan(e):
            if z3.is_and(e):
                for c in e.children():
                    scan(c)
            elif z3.is_app(e) and e.decl().kind() == z3.Z3_OP_SEQ_IN_RE and e.arg(0).eq(v.term):
                found.append(e.arg(1))
        for h in st.pc:
            scan(h)
        if z3.is_app(v.term) and v.term.decl().name() == "int_to_str":
            if not self.feasible(st, v.term.arg(0) < 0):
                found.append(z3.Plus(z3.Range("0", "9")))  # a non-negative integer prints as digits only
            else:
                found.append(z3.Concat(z3.Option(z3.Re("-")), z3.Plus(z3.Range("0", "9"))))
        if not found:
            return SX.ALLSTR
        r = found[0]
        for f in found[1:]:
            r = z3.Intersect(r, f)
        return r

    def with_class(self, v, cls, st):
        """attach a language to a freshly built string and record the membership as a path fact"""
        if SX.ALLSTR is None:
            SX.ALLSTR = z3.Full(z3.ReSort(z3.StringSort()))
        if cls is None or cls.eq(SX.ALLSTR):
            return v
        v.aux = dict(v.aux or {})
        v.aux["re"] = cls
        st.assume(z3.InRe(v.term, cls))
        return v

    def coerce_str(self, v, st):
        """a value used as text (str(x) view): itself for str, the string payload for a JSON string, else opaque"""
        v = self.deref(self.lift(v) if isinstance(v, Conc) else v, st)
        if isinstance(v.ty, V._Str):
            return v
        if isinstance(v.ty, V._Json):
            j = self.B.J()
            r = self.fresh(V.Str, "jtext", st)
            st.assume(z3.Implies(j["kind"](v.term) == self.B.JSTR, r.term == j["str"](v.term)))
            return r
        return self.fresh(V.Str, "text", st)

    def as_opt(self, v, opt_ty):
        """coerce v (None or inner) into Opt type"""
        if isinstance(v.ty, V.Opt):
            return v
        if isinstance(v.ty, V._None):
            return Val(opt_ty, opt_ty.none())
        return Val(opt_ty, opt_ty.some(v.term))

    def ite(self, c, a, b, st):
        """merge two values under condition c"""
        if z3.is_true(c):
            return a
        if z3.is_false(c):
            return b
        a = self.lift(a) if isinstance(a, Conc) else a
        b = self.lift(b) if isinstance(b, Conc) else b
        if self.spec_mode and st is not None:
            # contract expressions have value semantics
            if isinstance(a, Ref) and isinstance(st.heap.get(a.cell), Val):
                a = st.getcell(a.cell)
            if isinstance(b, Ref) and isinstance(st.heap.get(b.cell), Val):
                b = st.getcell(b.cell)
        if isinstance(a, (Ref, Func)) or isinstance(b, (Ref, Func)):
            return None
        if a.ty == b.ty:
            if isinstance(a.ty, V._None):
                return a
            r = Val(a.ty, z3.If(c, a.term, b.term))
            if isinstance(a.ty, V._Str) and st is not None and ((a.aux and "re" in a.aux) or (b.aux and "re" in b.aux)):
                r.aux = {"re": z3.Union(self.str_class(a, st), self.str_class(b, st))}
            return r
        if isinstance(a.ty, V._None) and not isinstance(b.ty, V.Opt):
            t = V.Opt(b.ty)
            return Val(t, z3.If(c, t.none(), t.some(b.term)))
        if isinstance(b.ty, V._None) and not isinstance(a.ty, V.Opt):
            t = V.Opt(a.ty)
            return Val(t, z3.If(c, t.some(a.term), t.none()))
        if isinstance(a.ty, V.Opt) and (isinstance(b.ty, V._None) or b.ty == a.ty.inner):
            return Val(a.ty, z3.If(c, a.term, self.as_opt(b, a.ty).term))
        if isinstance(b.ty, V.Opt) and (isinstance(a.ty, V._None) or a.ty == b.ty.inner):
            return Val(b.ty, z3.If(c, self.as_opt(a, b.ty).term, b.term))
        if isinstance(a.ty, (V._Int, V._Bool)) and isinstance(b.ty, (V._Int, V._Bool)):
            return Val(V.Int, z3.If(c, self.num(a), self.num(b)))
        if isinstance(a.ty, (V._Int, V._Real, V._Bool)) and isinstance(b.ty, (V._Int, V._Real, V._Bool)):
            return Val(V.Real, z3.If(c, z3.ToReal(self.num(a)) if not isinstance(a.ty, V._Real) else a.term,
                                     z3.ToReal(self.num(b)) if not isinstance(b.ty, V._Real) else b.term))
        return None

    # ------------------------------------------------------------------ expression evaluation
    def ev(self, node, st):
        """evaluate expression -> list of R (each with its own state)"""
        m = getattr(self, "ev_" + type(node).__name__, None)
        if m is None:
            if self.spec_mode or isinstance(node, (ast.Yield, ast.YieldFrom, ast.Await, ast.Lambda)):
                self.unsupported("expression %s" % type(node).__name__, node)
            # an expression form the executor does not interpret (dict/set comprehension, ...): whatever it evaluates may call
            # anything -- treated like a call without contract (everything reachable havocked, any result, any exception)
            return Unknown("<%s expression>" % type(node).__name__).__pyvc_call__(self, [], {}, st, node)
        return m(node, st)

    def ev1(self, node, st):
        """evaluate an expression that must not fork or raise (spec expressions)"""
        rs = self.ev(node, st)
        ok = [r for r in rs if r.exc is None]
        if len(ok) != 1:
            self.unsupported("expression forks (%d paths) in single-path context: %s" % (len(rs), ast.unparse(node)), node)
        return ok[0].val

    def ev_seq(self, nodes, st):
        """evaluate nodes left to right -> (list of (vals, st), list of raise R)"""
        results = [([], st)]
        raises = []
        for n in nodes:
            new = []
            for vals, s in results:
                for r in self.ev(n, s):
                    if r.exc is not None:
                        raises.append(r)
                    else:
                        new.append((vals + [r.val], r.st))
            results = new
        return results, raises

    def ev_Constant(self, node, st):
        v = node.value
        if v is None:
            return [R(st, NONE)]
        if isinstance(v, bool):
            return [R(st, V.mk_bool(v))]
        if isinstance(v, int):
            return [R(st, V.mk_int(v))]
        if isinstance(v, float):
            return [R(st, Val(V.Real, z3.RealVal(repr(v))))]
        if isinstance(v, str):
            return [R(st, V.mk_str(v))]
        if isinstance(v, bytes):
            return [R(st, V.mk_bytes(v))]
        if v is Ellipsis:
            return [R(st, NONE)]
        self.unsupported("constant %r" % (v,), node)

    def lookup(self, name, st, node=None):
        for fr in reversed(st.frames):
            if name in fr:
                return fr[name]
        if name in st.ghost and self.spec_mode:
            return st.ghost[name]
        g = self.reg.lookup_global(self, name, st)
        if g is not None:
            return g
        if (not self.spec_mode or self.code_comp) and self.reg.bound_at_module_level(self, name):
            # imported or defined in the module, but nobody gave it a contract or a model
            return Conc(Unknown(name))
        if (not self.spec_mode or self.code_comp) and name in getattr(self, "enclosing_locals", ()):
            return Conc(Unknown("closure variable " + name))
        import builtins as _pybuiltins
        if self.unit is not None and hasattr(_pybuiltins, name) and name not in ("old", "forall", "exists", "implies", "iff", "ghost", "matches"):
            return Conc(Unknown("builtins." + name))    # a python builtin the executor has no model for
        self.unsupported("unbound name %r" % name, node)

    def ev_Name(self, node, st):
        try:
            v = self.lookup(node.id, st, node)
            if isinstance(v, Conc) and isinstance(v.v, MaybeUnbound):
                s2 = st.fork()
                return [R(st, Conc(Unknown("value of %s left by an earlier iteration" % node.id))), R(s2, None, Exc("UnboundLocalError"))]
            return [R(st, v)]
        except Unsupported:
            if not self.spec_mode and node.id in getattr(self, "unit_locals", ()):
                # a local of this function that no statement has bound on this path: python raises UnboundLocalError
                return [R(st, None, Exc("UnboundLocalError"))]
            raise

    def ev_Tuple(self, node, st):
        results, raises = self.ev_seq(node.elts, st)
        out = list(raises)
        for vals, s in results:
            out.append(R(s, self.mk_tuple(vals, s)))
        return out

    def mk_tuple(self, vals, st):
        lifted = []
        ok = True
        for v in vals:
            v2 = v  # references to mutable containers keep their identity inside a tuple
            if isinstance(v2, Conc):
                try:
                    v2 = self.lift(v2)
                except Unsupported:
                    ok = False
            if isinstance(v2, (Ref, Func, Conc)) or v2.ty is None or isinstance(v2.ty, V._None):
                ok = False
            lifted.append(v2)
        if ok:
            t = V.Tuple(*[v.ty for v in lifted])
            return Val(t, t.mk(*[v.term for v in lifted]))
        return Conc(tuple(vals))

    def ev_List(self, node, st):
        results, raises = self.ev_seq(node.elts, st)
        out = list(raises)
        for vals, s in results:
            out.append(R(s, self.new_list(vals, s, node)))
        return out

    def new_list(self, vals, st, node=None, elem_ty=None):
        raw = list(vals)
        try:
            vals = [self.lift(v) if isinstance(v, Conc) else self.deref(v, st) for v in vals]
        except Unsupported:
            if not self.spec_mode and getattr(self, "mutated_names", None):
                return Conc(Unknown("a list literal of unmodelled values in a function that mutates local lists in place (%s; line %s)" % (
                    ", ".join(sorted(self.mutated_names)), getattr(node, "lineno", "?"))))
            return Conc(HetList(raw))
        if elem_ty is None and vals and any(isinstance(v, (Ref, Func, Conc)) or v.ty is None or v.term is None or v.ty != vals[0].ty for v in vals):
            # a list literal of mixed python types (e.g. a protocol frame ["OK", id, True, ""]): kept as a python-level tuple
            if not self.spec_mode and getattr(self, "mutated_names", None):
                # ... unless the function mutates some local list in place: then nothing is known about it (contract `true`)
                return Conc(Unknown("a mixed-type list literal in a function that mutates local lists in place (%s; line %s)" % (
                    ", ".join(sorted(self.mutated_names)), getattr(node, "lineno", "?"))))
            return Conc(HetList(raw))
        if elem_ty is None:
            if not vals:
                # element type unknown yet: polymorphic empty list
                return Ref(V.List(V.Int), st.alloc(("emptylist",)))
            elem_ty = vals[0].ty
        t = V.List(elem_ty)
        arr = V.List(elem_ty).arr(t.empty())
        for i, v in enumerate(vals):
            if isinstance(v, (Ref, Func)) or v.ty != elem_ty:
                v = self.coerce(v, elem_ty, st)
            arr = z3.Store(arr, i, v.term)
        return Ref(t, st.alloc(Val(t, t.mk(arr, z3.IntVal(len(vals))))))

    def coerce(self, v, ty, st):
        v = self.deref(v, st)
        if isinstance(v, Conc):
            v = self.lift(v)
        if isinstance(v, (Ref, Func)):
            self.unsupported("cannot store %r as %r" % (v, ty))
        if v.ty == ty:
            return v
        if isinstance(v.ty, V.Opaque) and v.ty._n == "unknown" and not self.spec_mode:
            # a value without contract used where a `ty` is expected: some value of that type (or the operation fails; the
            # callers that care add their own TypeError edge)
            return self.fresh(ty, "unknown_as", st)
        if isinstance(ty, V.Opt):
            if isinstance(v.ty, V._None) or v.ty == ty.inner:
                return self.as_opt(v, ty)
        if isinstance(ty, V._Real) and isinstance(v.ty, (V._Int, V._Bool)):
            return Val(V.Real, z3.ToReal(self.num(v)))
        if isinstance(ty, V._Int) and isinstance(v.ty, V._Bool):
            return Val(V.Int, self.num(v))
        if isinstance(ty, V.List) and isinstance(v.ty, V.Tuple):
            arr = ty.arr(ty.empty())
            for i, it in enumerate(v.ty.items):
                arr = z3.Store(arr, i, self.coerce(Val(it, v.ty.field(v.term, i)), ty.elem, st).term)
            return Val(ty, ty.mk(arr, z3.IntVal(len(v.ty.items))))
        if isinstance(ty, V._Json):
            return self.B.to_json(self, v, st)
        if isinstance(v.ty, V.Opt) and v.ty.inner == ty and not self.feasible(st, v.ty.is_none(v.term)):
            return Val(ty, v.ty.get(v.term))  # an optional value known to be present on this path
        self.unsupported("cannot coerce %r to %r" % (v.ty, ty))

    def ev_Set(self, node, st):
        results, raises = self.ev_seq(node.elts, st)
        out = list(raises)
        for vals, s in results:
            vals = [self.lift(v) if isinstance(v, Conc) else v for v in vals]
            t = V.Set(vals[0].ty)
            term = t.empty()
            for v in vals:
                term = z3.Store(term, v.term, True)
            out.append(R(s, Val(t, term)))
        return out

    def ev_Dict(self, node, st):
        if node.keys:
            if all(isinstance(k, ast.Constant) and isinstance(k.value, str) for k in node.keys):
                results, raises = self.ev_seq(node.values, st)
                out = list(raises)
                for vals, s in results:
                    # record-like dict literal: keep as concrete mapping of Vals
                    out.append(R(s, Conc({k.value: v for k, v in zip(node.keys, vals)})))
                return out
            self.unsupported("dict literal with non-constant keys", node)
        return [R(st, Ref(V.Dict(V.Str, V.Int), st.alloc(("emptydict",))))]

    def ev_UnaryOp(self, node, st):
        out = []
        for r in self.ev(node.operand, st):
            if r.exc is not None:
                out.append(r)
                continue
            v = self.lift(r.val) if isinstance(r.val, Conc) else r.val
            if isinstance(node.op, ast.Not):
                out.append(R(r.st, Val(V.Bool, z3.Not(self.truthy(v, r.st)))))
            elif isinstance(node.op, ast.USub):
                v = self.deref(v, r.st)
                out.append(R(r.st, Val(v.ty if not isinstance(v.ty, V._Bool) else V.Int, -self.num(v))))
            elif isinstance(node.op, ast.UAdd):
                out.append(R(r.st, v))
            else:
                self.unsupported("unary op", node)
        return out

    def ev_BoolOp(self, node, st):
        is_and = isinstance(node.op, ast.And)
        if self.spec_mode:
            # contract expressions are total and effect-free: no forking
            vals = [self.ev1(v, st) for v in node.values]
            vals = [self.lift(v) if isinstance(v, Conc) else v for v in vals]
            if all(isinstance(v, Val) and isinstance(v.ty, V._Bool) for v in vals):
                ts = [v.term for v in vals]
                return [R(st, Val(V.Bool, z3.And(*ts) if is_and else z3.Or(*ts)))]
            cur = vals[-1]
            for v in reversed(vals[:-1]):
                t = self.truthy(v, st)
                cur = self.ite(t, cur, v, st) if is_and else self.ite(t, v, cur, st)
                if cur is None:
                    if any(isinstance(x, Val) and isinstance(x.ty, V.Opaque) and x.ty._n == "unknown" for x in vals):
                        # operands without contract: only the truth value of the whole expression is meaningful
                        ts = [self.truthy(x, st) for x in vals]
                        return [R(st, Val(V.Bool, z3.And(*ts) if is_and else z3.Or(*ts)))]
                    self.unsupported("and/or of incompatible types in a contract expression", node)
            return [R(st, cur)]

        def go(i, st):
            out = []
            for r in self.ev(node.values[i], st):
                if r.exc is not None:
                    out.append(r)
                    continue
                if i == len(node.values) - 1:
                    out.append(r)
                    continue
                t = self.truthy(r.val, r.st)
                t = z3.simplify(t)
                cont_cond = t if is_and else z3.Not(t)
                stop_cond = z3.Not(t) if is_and else t
                # try pure merge: evaluate the rest on a forked state
                can_stop = not z3.is_true(cont_cond) and (self.spec_mode or self.feasible(r.st, stop_cond))
                can_cont = not z3.is_false(cont_cond) and (self.spec_mode or self.feasible(r.st, cont_cond))
                if can_cont:
                    s2 = r.st.fork().assume(cont_cond) if can_stop else r.st.assume(cont_cond)
                    npc = len(s2.pc)
                    rest = go(i + 1, s2)
                    if can_stop and len(rest) == 1 and rest[0].exc is None and self._unchanged(r.st, rest[0].st, npc):
                        merged = self._merge_bool(is_and, t, r.val, rest[0].val, r.st)
                        if merged is not None:
                            out.append(R(r.st, merged))
                            continue
                    out.extend(rest)
                if can_stop:
                    s3 = r.st if not can_cont else r.st.fork()
                    s3.assume(stop_cond)
                    out.append(R(s3, r.val))
            return out

        return go(0, st)

    def _unchanged(self, before, after, npc):
        # `after` was forked from `before` plus one assumption; pure if nothing else was added
        if len(after.pc) != npc:
            return False
        if after.heap.keys() != before.heap.keys():
            return False
        for k in before.heap:
            a, b = before.heap[k], after.heap[k]
            if isinstance(a, dict):
                if any(a[x] is not b.get(x) for x in a) or len(a) != len(b):
                    return False
            elif a is not b:
                return False
        for k in before.ghost:
            if k == "__ne_cache":
                continue
            if before.ghost[k] is not after.ghost.get(k):
                return False
        return len(before.ghost) == len(after.ghost)

    def _merge_bool(self, is_and, t, a, b, st):
        # python: (a and b) = b if truthy(a) else a ; (a or b) = a if truthy(a) else b
        if isinstance(a, Val) and isinstance(b, Val) and a.ty is not None and b.ty is not None:
            if isinstance(a.ty, V._Bool) and isinstance(b.ty, V._Bool):
                return Val(V.Bool, z3.And(a.term, b.term) if is_and else z3.Or(a.term, b.term))
        if is_and:
            return self.ite(t, b, a, st)
        return self.ite(t, a, b, st)

    def ev_IfExp(self, node, st):
        out = []
        for r in self.ev(node.test, st):
            if r.exc is not None:
                out.append(r)
                continue
            c = z3.simplify(self.truthy(r.val, r.st))
            ft = not z3.is_false(c) and (self.spec_mode or self.feasible(r.st, c))
            ff = not z3.is_true(c) and (self.spec_mode or self.feasible(r.st, z3.Not(c)))
            if ft and ff:
                sa = r.st.fork().assume(c)
                sb = r.st.fork().assume(z3.Not(c))
                na, nb = len(sa.pc), len(sb.pc)
                ra = self.ev(node.body, sa)
                rb = self.ev(node.orelse, sb)
                if (
                    len(ra) == 1
                    and len(rb) == 1
                    and ra[0].exc is None
                    and rb[0].exc is None
                    and self._unchanged(r.st, ra[0].st, na)
                    and self._unchanged(r.st, rb[0].st, nb)
                ):
                    m = self.ite(c, ra[0].val, rb[0].val, r.st)
                    if m is not None:
                        out.append(R(r.st, m))
                        continue
                out.extend(ra)
                out.extend(rb)
            elif ft:
                out.extend(self.ev(node.body, r.st.assume(c)))
            elif ff:
                out.extend(self.ev(node.orelse, r.st.assume(z3.Not(c))))
        return out

    def ev_Compare(self, node, st):
        # chained comparisons: a < b < c  ==  a < b and b < c (b evaluated once)
        operands = [node.left] + list(node.comparators)
        results, raises = self.ev_seq(operands, st)
        out = list(raises)
        for vals, s in results:
            if len(node.ops) == 1 and any(isinstance(v, Conc) and hasattr(v.v, "__pyvc_compare__") for v in vals):
                # operator overloading by a modelled library object (e.g. SQLAlchemy column expressions)
                ov = vals[0] if (isinstance(vals[0], Conc) and hasattr(vals[0].v, "__pyvc_compare__")) else vals[1]
                out.extend(ov.v.__pyvc_compare__(self, node.ops[0], vals[0], vals[1], s, node))
                continue
            conj = []
            rs = [(s, [])]
            # `in` on Json / implicit exceptions may fork; handle via compare_op returning list
            cur = [(s, z3.BoolVal(True))]
            for i, op in enumerate(node.ops):
                nxt = []
                for s2, acc in cur:
                    for (s3, c, exc) in self.compare_op(op, vals[i], vals[i + 1], s2, node):
                        if exc is not None:
                            out.append(R(s3, None, exc))
                        else:
                            nxt.append((s3, z3.And(acc, c) if not z3.is_true(acc) else c))
                cur = nxt
            for s2, c in cur:
                out.append(R(s2, Val(V.Bool, c)))
        return out

    def compare_op(self, op, a, b, st, node):
        """-> list of (state, z3 Bool | None, Exc | None)"""
        B = self.B
        if isinstance(op, ast.Eq):
            return [(st, self.eq(a, b, st), None)]
        if isinstance(op, ast.NotEq):
            return [(st, z3.Not(self.eq(a, b, st)), None)]
        if isinstance(op, (ast.Is, ast.IsNot)):
            c = self.is_(a, b, st)
            return [(st, c if isinstance(op, ast.Is) else z3.Not(c), None)]
        if isinstance(op, (ast.In, ast.NotIn)):
            res = B.contains(self, b, a, st, node)
            if isinstance(op, ast.NotIn):
                res = [(s, (z3.Not(c) if c is not None else None), e) for (s, c, e) in res]
            return res
        a = self.deref(self.lift(a) if isinstance(a, Conc) else a, st)
        b = self.deref(self.lift(b) if isinstance(b, Conc) else b, st)
        return B.order(self, op, a, b, st, node)

    def is_(self, a, b, st):
        if isinstance(a, Ref) and isinstance(b, Ref):
            return z3.BoolVal(a.cell == b.cell)
        if isinstance(a, Conc) and isinstance(b, Conc):
            return z3.BoolVal(a.v is b.v)
        if isinstance(a, Func) or isinstance(b, Func):
            return z3.BoolVal(a is b)
        if isinstance(a, Ref) or isinstance(b, Ref):
            return z3.BoolVal(False)
        for x, y in ((a, b), (b, a)):
            if isinstance(x, Conc) and not isinstance(x.v, (int, str, float, bool, bytes, type(None))) and isinstance(y, Val) and isinstance(y.ty, V._None):
                return z3.BoolVal(False)
        # identity on immutable values: only None/True/False identities are meaningful
        la = self.lift(a) if isinstance(a, Conc) else a
        lb = self.lift(b) if isinstance(b, Conc) else b
        if isinstance(la.ty, V._None) or isinstance(lb.ty, V._None) or isinstance(la.ty, V._Bool) or isinstance(lb.ty, V._Bool):
            return self.eq(la, lb, st)
        self.unsupported("`is` between %r and %r" % (la.ty, lb.ty))

    def ev_BinOp(self, node, st):
        results, raises = self.ev_seq([node.left, node.right], st)
        out = list(raises)
        for (a, b), s in results:
            out.extend(self.B.binop(self, node.op, a, b, s, node))
        return out

    def ev_Attribute(self, node, st):
        out = []
        for r in self.ev(node.value, st):
            if r.exc is not None:
                out.append(r)
                continue
            out.extend(self.getattr(r.val, node.attr, r.st, node))
        return out

    def getattr(self, obj, attr, st, node=None):
        if isinstance(obj, Ref):
            content = st.getcell(obj.cell)
            if isinstance(content, dict):
                if attr in content:
                    return [R(st, content[attr])]
                # method of a heap object
                m = self.reg.method(self, obj, attr, st)
                if m is not None:
                    return [R(st, m)]
                m = self.reg.own_class_method(self, obj, attr, st)
                if m is not None:
                    return [R(st, m)]
                if not self.spec_mode and not attr.startswith("__"):
                    # an attribute the sidecar's class model does not declare (e.g. state added to the class by a change): nothing
                    # is known about its value
                    self.uncontracted.append("attribute %s of %s (line %s)" % (attr, getattr(obj.ty, "cls", obj.ty), getattr(node, "lineno", "?")))
                    return [R(st, Conc(Unknown("%s.%s" % (getattr(obj.ty, "cls", "obj"), attr))))]
                self.unsupported("attribute %s of %r" % (attr, obj.ty), node)
            return [R(st, self.B.bound_method(self, obj, attr, node))]
        if isinstance(obj, Conc):
            v = obj.v
            if isinstance(v, dict) and attr in ("get", "items", "pop", "keys", "values"):
                return [R(st, self.B.bound_method(self, obj, attr, node))]
            if hasattr(v, "__pyvc_getattr__"):
                try:
                    return v.__pyvc_getattr__(self, attr, st, node)
                except Unsupported:
                    if self.spec_mode:
                        raise
                    # a member of a modelled library module / object that the model does not cover: no contract
                    who = getattr(v, "__pyvc_module__", None) or type(v).__name__
                    self.uncontracted.append("%s.%s (line %s)" % (who, attr, getattr(node, "lineno", "?")))
                    return [R(st, Conc(Unknown("%s.%s" % (who, attr))))]
            self.unsupported("attribute %s of concrete %r" % (attr, v), node)
        if isinstance(obj, Func):
            self.unsupported("attribute %s of function" % attr, node)
        t = obj.ty
        if isinstance(t, V.Rec):
            if attr in t.fields:
                return [R(st, Val(t.fields[attr], t.get(obj.term, attr)))]
            m = self.reg.rec_attr(self, obj, attr, st, node)
            if m is not None:
                return m
            if ("method", t.rname) in self.reg.hooks:
                return [R(st, self.B.bound_method(self, obj, attr, node))]
            if not self.spec_mode and not attr.startswith("__"):
                # a member of the record type that the sidecar does not model: nothing is known about it
                self.uncontracted.append("%s.%s (line %s)" % (t.rname, attr, getattr(node, "lineno", "?")))
                return [R(st, Conc(Unknown("%s.%s" % (t.rname, attr))))]
            self.unsupported("attribute %s of record %s" % (attr, t.rname), node)
        if isinstance(t, V.Opt):
            # attribute access on None raises AttributeError
            outs = []
            isn = z3.simplify(t.is_none(obj.term))
            if not z3.is_false(isn) and not self.spec_mode and self.feasible(st, isn):
                outs.append(R(st.fork().assume(isn), None, Exc("AttributeError")))
            if not z3.is_true(isn):
                s2 = st if self.spec_mode else st.assume(z3.Not(isn))
                outs.extend(self.getattr(Val(t.inner, t.get(obj.term)), attr, s2, node))
            return outs
        if isinstance(t, V._None):
            return [R(st, None, Exc("AttributeError"))]
        return [R(st, self.B.bound_method(self, obj, attr, node))]

    def ev_Subscript(self, node, st):
        out = []
        for r in self.ev(node.value, st):
            if r.exc is not None:
                out.append(r)
                continue
            if isinstance(node.slice, ast.Slice):
                parts = [node.slice.lower, node.slice.upper, node.slice.step]
                results, raises = self.ev_seq([p for p in parts if p is not None], r.st)
                out.extend(raises)
                for vals, s in results:
                    it = iter(vals)
                    lo, hi, step = [next(it) if p is not None else None for p in parts]
                    out.extend(self.B.slice_(self, r.val, lo, hi, step, s, node))
            else:
                for r2 in self.ev(node.slice, r.st):
                    if r2.exc is not None:
                        out.append(r2)
                        continue
                    out.extend(self.B.index(self, r.val, r2.val, r2.st, node))
        return out

    def ev_Await(self, node, st):
        # `await e`: the coroutine's effects happen here; one coroutine step is atomic (assumption A4)
        out = []
        for r in self.ev(node.value, st):
            if r.exc is not None:
                out.append(r)
                continue
            v = r.val
            if isinstance(v, Conc) and hasattr(v.v, "__pyvc_await__"):
                out.extend(v.v.__pyvc_await__(self, r.st, node))
                continue
            if isinstance(v, Val) and v.ty is not None:
                t = v.ty.inner if isinstance(v.ty, V.Opt) else v.ty
                h = self.reg.hooks.get(("await", repr(t)))
                if h is not None:
                    out.extend(h(self, v, r.st, node))
                    continue
            out.append(r)
        return out

    def ev_Lambda(self, node, st):
        frames_depth = len(st.frames)

        def call(sx, args, kwargs, st2, callnode):
            params = [a.arg for a in node.args.args]
            fr = {}
            for p, a in zip(params, args):
                fr[p] = a
            st2.frames.append(fr)
            try:
                rs = sx.ev(node.body, st2)
            finally:
                pass
            for r in rs:
                r.st.frames.pop()
            return rs

        return [R(st, Func(call, "lambda@%d" % node.lineno))]

    def ev_JoinedStr(self, node, st):
        return self.B.fstring(self, node, st)

    def ev_ListComp(self, node, st):
        return self.B.comprehension(self, node, st, "list")

    def ev_SetComp(self, node, st):
        return self.B.comprehension(self, node, st, "set")

    def ev_GeneratorExp(self, node, st):
        return self.B.comprehension(self, node, st, "gen")

    def ev_Starred(self, node, st):
        self.unsupported("starred expression", node)

    def ev_NamedExpr(self, node, st):
        out = []
        for r in self.ev(node.value, st):
            if r.exc is None:
                r.st.env[node.target.id] = r.val
            out.append(r)
        return out

    def ev_Call(self, node, st):
        if any(isinstance(a, ast.Starred) for a in node.args) or any(k.arg is None for k in node.keywords):
            return self.B.star_call(self, node, st)
        if (isinstance(node.func, ast.Name) and node.func.id in ("any", "all") and len(node.args) == 1
                and isinstance(node.args[0], (ast.GeneratorExp, ast.ListComp)) and len(node.args[0].generators) == 1):
            r = self.B.any_all_comprehension(self, node, st)
            if r is not None:
                return r
        # spec-only forms: old(x), forall/exists with lambda
        if isinstance(node.func, ast.Name) and node.func.id in self.B.SPECIAL_FORMS:
            return self.B.SPECIAL_FORMS[node.func.id](self, node, st)
        out = []
        for rf in self.ev(node.func, st):
            if rf.exc is not None:
                out.append(rf)
                continue
            argnodes = list(node.args) + [k.value for k in node.keywords]
            results, raises = self.ev_seq(argnodes, rf.st)
            out.extend(raises)
            for vals, s in results:
                args = vals[: len(node.args)]
                kwargs = {k.arg: v for k, v in zip(node.keywords, vals[len(node.args):])}
                if args and id(node) in self._capture_calls:
                    # a statement-level hint wants the VALUE this call received as its first argument (evaluated once, here)
                    s.ghost["__arg0__"] = args[0] if not isinstance(args[0], Ref) else self.deref(args[0], s)
                out.extend(self.call(rf.val, args, kwargs, s, node))
        return out

    def call(self, f, args, kwargs, st, node):
        if isinstance(f, Func):
            has_unknown = any(isinstance(a, Conc) and isinstance(a.v, Unknown) for a in list(args) + list(kwargs.values()))
            if not has_unknown:
                if f.label.startswith("builtin:") and not self.spec_mode:
                    probe0 = st.fork()
                    try:
                        return f.fn(self, args, kwargs, st, node)
                    except Unsupported:
                        # a python builtin used in a way the executor does not model (sorted() of a set, ...): builtins do not mutate
                        # their arguments (the ones that do -- none here -- are modelled); the result is a value without contract
                        st.pc, st.heap, st.ghost = probe0.pc, probe0.heap, probe0.ghost
                        self.uncontracted.append("%s (line %s)" % (f.label, getattr(node, "lineno", "?")))
                        return [R(st, Conc(Unknown("%s()" % f.label[8:]))), R(st.fork(), None, Exc("Exception", exact=False))]
                return f.fn(self, args, kwargs, st, node)
            # a modelled function applied to a value without contract: if the model cannot cope, its result is unknown too
            probe = st.fork()
            try:
                return f.fn(self, args, kwargs, st, node)
            except Unsupported:
                raise
            except Exception:  # noqa  (z3 sort errors, attribute errors inside model code)
                st.pc, st.heap, st.ghost = probe.pc, probe.heap, probe.ghost
                self.uncontracted.append("%s applied to a value without contract (line %s)" % (f.label, getattr(node, "lineno", "?")))
                return [R(st, Conc(Unknown("%s(unknown)" % f.label))), R(st.fork(), None, Exc("Exception", exact=False))]
        if isinstance(f, Conc) and callable(getattr(f.v, "__pyvc_call__", None)):
            return f.v.__pyvc_call__(self, args, kwargs, st, node)
        if isinstance(f, Val) and isinstance(f.ty, V.Opt):
            outs = []
            isn = f.ty.is_none(f.term)
            if self.feasible(st, isn):
                outs.append(R(st.fork().assume(isn), None, Exc("TypeError")))
            st.assume(z3.Not(isn))
            return outs + self.call(Val(f.ty.inner, f.ty.get(f.term)), args, kwargs, st, node)
        m = self.reg.call_value(self, f, args, kwargs, st, node)
        if m is not None:
            return m
        self.unsupported("call of non-callable %r" % (f,), node)

    # ------------------------------------------------------------------ statements
    def ex_block(self, stmts, st):
        """execute statements -> list of Out"""
        outs = [Out("normal", st)]
        for stmt in stmts:
            nxt = []
            for o in outs:
                if o.kind != "normal":
                    nxt.append(o)
                else:
                    nxt.extend(self.ex(stmt, o.st))
            outs = nxt
            if not outs:
                break
        return outs

    def ex(self, stmt, st):
        m = getattr(self, "ex_" + type(stmt).__name__, None)
        if m is None:
            self.unsupported("statement %s" % type(stmt).__name__, stmt)
        rf = getattr(self.unit, "refined", None)
        if rf and not self.spec_mode and isinstance(stmt, ast.Expr) and isinstance(stmt.value, ast.Call) \
                and isinstance(stmt.value.func, ast.Attribute) and isinstance(stmt.value.func.value, ast.Name) \
                and stmt.value.func.value.id in rf and stmt.value.func.attr in ("add", "append"):
            cname = rf[stmt.value.func.value.id][0]
            return self._ex_with_hints(m, stmt, st, {"_el": "@arg0"}, [], [("element-in-%s" % cname, "matches(_el, '%s')" % cname)])
        sh = getattr(self.unit, "stmt_hints", None)
        if sh and not self.spec_mode and isinstance(stmt, (ast.Expr, ast.Assign, ast.AugAssign)):
            src = ast.unparse(stmt)
            for entry in sh:
                prefix, snaps, lemmas = entry[0], entry[1], entry[2]
                asserts = entry[3] if len(entry) > 3 else ()
                if src.startswith(prefix):
                    return self._ex_with_hints(m, stmt, st, snaps, lemmas, asserts)
        return m(stmt, st)

    def _ex_with_hints(self, m, stmt, st, snaps, lemmas, asserts=()):
        """ghost code keyed by statement text: snapshot values before, assume proved-lemma instances after"""
        pre = {}
        arg0_names = []
        captured = None
        self.spec_mode += 1
        try:
            for name, expr in snaps.items():
                if expr == "@arg0":
                    # the first argument of the call this statement makes (e.g. the value being appended): captured when the call
                    # itself evaluates it -- evaluating the expression a second time would create different fresh symbols
                    call = stmt.value if isinstance(stmt, ast.Expr) else getattr(stmt, "value", None)
                    while isinstance(call, ast.Await):
                        call = call.value
                    if not (isinstance(call, ast.Call) and call.args):
                        continue
                    arg0_names.append(name)
                    captured = call
                else:
                    v = self.ev1(ast.parse(expr, mode="eval").body, st)
                    pre[name] = self.deref(v, st)
        finally:
            self.spec_mode -= 1
        if captured is not None:
            self._capture_calls.add(id(captured))
        try:
            outs = m(stmt, st)
        finally:
            if captured is not None:
                self._capture_calls.discard(id(captured))
        base_pre = pre
        for o in outs:
            pre = dict(base_pre)
            if arg0_names:
                got = o.st.ghost.pop("__arg0__", None)
                if got is None:
                    continue
                for nm in arg0_names:
                    pre[nm] = got
            if o.kind == "normal":
                for e in lemmas:
                    o.st.assume(self.eval_spec(e, o.st, pre))
                # visible-state assertions: what another thread can observe right after this statement
                for (aname, e) in asserts:
                    self.oblige(o.st, "%s/after:%s:%s" % (self.cur_func, ast.unparse(stmt)[:40], aname),
                                self.eval_spec(e, o.st, pre), "visible-state", stmt)
        return outs

    def _raise_outs(self, rs):
        return [Out("raise", r.st, r.exc) for r in rs if r.exc is not None]

    def ex_Expr(self, stmt, st):
        if isinstance(stmt.value, ast.Constant):
            return [Out("normal", st)]  # docstring
        if isinstance(stmt.value, (ast.Yield, ast.YieldFrom)):
            return self.ex_yield(stmt.value, st)
        rs = self.ev(stmt.value, st)
        return [Out("raise", r.st, r.exc) if r.exc is not None else Out("normal", r.st) for r in rs]

    def ex_yield(self, node, st):
        if isinstance(node, ast.YieldFrom):
            if self.yield_hook is None:
                self.unsupported("yield from outside generator unit", node)
            outs = []
            for r in self.ev(node.value, st):
                if r.exc is not None:
                    outs.append(Out("raise", r.st, r.exc))
                else:
                    outs.extend(self.yield_hook(self, r.val, r.st, node, True))
            return outs
        if node.value is None:
            rs = [R(st, NONE)]
        else:
            rs = self.ev(node.value, st)
        outs = []
        for r in rs:
            if r.exc is not None:
                outs.append(Out("raise", r.st, r.exc))
            elif self.yield_hook is None:
                self.unsupported("yield outside generator unit", node)
            else:
                outs.extend(self.yield_hook(self, r.val, r.st, node, False))
        return outs

    def ex_Pass(self, stmt, st):
        return [Out("normal", st)]

    def ex_Global(self, stmt, st):
        return [Out("normal", st)]

    def ex_Import(self, stmt, st):
        return [Out("normal", st)]

    def ex_ImportFrom(self, stmt, st):
        return [Out("normal", st)]

    def ex_Break(self, stmt, st):
        return [Out("break", st)]

    def ex_Continue(self, stmt, st):
        return [Out("continue", st)]

    def ex_Return(self, stmt, st):
        if stmt.value is None:
            return [Out("return", st, NONE)]
        return [Out("raise", r.st, r.exc) if r.exc is not None else Out("return", r.st, r.val) for r in self.ev(stmt.value, st)]

    def ex_Assert(self, stmt, st):
        outs = []
        for r in self.ev(stmt.test, st):
            if r.exc is not None:
                outs.append(Out("raise", r.st, r.exc))
                continue
            c = z3.simplify(self.truthy(r.val, r.st))
            if not z3.is_true(c) and self.feasible(r.st, z3.Not(c)):
                outs.append(Out("raise", r.st.fork().assume(z3.Not(c)), Exc("AssertionError")))
            if not z3.is_false(c):
                outs.append(Out("normal", r.st.assume(c)))
        return outs

    def ex_Raise(self, stmt, st):
        if stmt.exc is None:
            cur = st.env.get("__active_exc__")
            if cur is None:
                self.unsupported("bare raise outside handler", stmt)
            return [Out("raise", st, cur.v)]
        node = stmt.exc
        # raise Cls(msg) | raise Cls | raise name
        if isinstance(node, ast.Call):
            cname = self.exc_class_name(node.func)
            if cname is not None:
                outs = []
                results, raises = self.ev_seq(node.args, st)
                outs.extend(self._raise_outs(raises))
                for vals, s in results:
                    outs.append(Out("raise", s, Exc(cname, vals[0] if vals else None)))
                return outs
        cname = self.exc_class_name(node)
        if cname is not None and cname in EXC_PARENT or cname == "BaseException":
            return [Out("raise", st, Exc(cname))]
        if isinstance(node, ast.Name):
            v = self.lookup(node.id, st, node)
            if isinstance(v, Conc) and isinstance(v.v, Exc):
                return [Out("raise", st, v.v)]
            if isinstance(v, Conc) and isinstance(v.v, Unknown):
                # raising a value nothing is known about: some exception (or TypeError if it is not one)
                return [Out("raise", st, Exc("Exception", exact=False))]
        self.unsupported("raise of %s" % ast.unparse(node), stmt)

    def exc_class_name(self, node):
        if isinstance(node, ast.Attribute):
            return node.attr if node.attr in EXC_PARENT else None
        if isinstance(node, ast.Name):
            return node.id if node.id in EXC_PARENT or node.id == "BaseException" else None
        return None

    def ex_Delete(self, stmt, st):
        outs = [Out("normal", st)]
        for tgt in stmt.targets:
            nxt = []
            for o in outs:
                if o.kind != "normal":
                    nxt.append(o)
                    continue
                if isinstance(tgt, ast.Name):
                    o.st.env.pop(tgt.id, None)
                    nxt.append(o)
                elif isinstance(tgt, ast.Subscript):
                    results, raises = self.ev_seq([tgt.value, tgt.slice], o.st)
                    nxt.extend(self._raise_outs(raises))
                    for (c, k), s in results:
                        for (s2, exc) in self.B.delitem(self, c, k, s, tgt):
                            nxt.append(Out("raise", s2, exc) if exc is not None else Out("normal", s2))
                else:
                    self.unsupported("del target", stmt)
            outs = nxt
        return outs

    def ex_Assign(self, stmt, st):
        outs = []
        for r in self.ev(stmt.value, st):
            if r.exc is not None:
                outs.append(Out("raise", r.st, r.exc))
                continue
            cur = [Out("normal", r.st)]
            for tgt in stmt.targets:
                nxt = []
                for o in cur:
                    if o.kind != "normal":
                        nxt.append(o)
                    else:
                        nxt.extend(self.assign(tgt, r.val, o.st))
                cur = nxt
            outs.extend(cur)
        return outs

    def ex_AnnAssign(self, stmt, st):
        if stmt.value is None:
            return [Out("normal", st)]
        outs = []
        for r in self.ev(stmt.value, st):
            if r.exc is not None:
                outs.append(Out("raise", r.st, r.exc))
            else:
                outs.extend(self.assign(stmt.target, r.val, r.st))
        return outs

    def ex_AugAssign(self, stmt, st):
        load = ast.copy_location(self._as_load(stmt.target), stmt)
        binop = ast.copy_location(ast.BinOp(left=load, op=stmt.op, right=stmt.value), stmt)
        ast.fix_missing_locations(binop)
        # list += is an in-place extend: on a list VALUE (an element of a record field such as event.tags[i], a value the function
        # was handed and does not own) that is a write to somebody else's object -- a frame violation, not a local rebinding
        if isinstance(stmt.op, ast.Add) and isinstance(stmt.target, ast.Name) and not self.spec_mode:
            cur = None
            for fr in reversed(st.frames):
                if stmt.target.id in fr:
                    cur = fr[stmt.target.id]
                    break
            if isinstance(cur, Val) and not isinstance(cur, (Ref, Func, Conc)) and isinstance(cur.ty, V.List):
                self.oblige(st, "%s/frame:mutates-a-list-it-does-not-own@%s" % (self.cur_func, getattr(stmt, "lineno", "?")),
                            z3.BoolVal(False), "frame", stmt)
        outs = []
        for r in self.ev(binop, st):
            if r.exc is not None:
                outs.append(Out("raise", r.st, r.exc))
            else:
                outs.extend(self.assign(stmt.target, r.val, r.st, aug=True))
        return outs

    def _as_load(self, tgt):
        import copy

        t = copy.deepcopy(tgt)
        for n in ast.walk(t):
            if hasattr(n, "ctx"):
                n.ctx = ast.Load()
        return t

    def assign(self, tgt, val, st, aug=False):
        if isinstance(tgt, ast.Name):
            lt = getattr(self.unit, "local_types", None)
            if lt and tgt.id in lt and not self.spec_mode:
                ty = lt[tgt.id]
                if callable(ty) and not isinstance(ty, V.Ty):
                    # sidecar-supplied conversion for a local whose python type changes over time
                    val = ty(self, val, st)
                elif isinstance(val, Ref) and isinstance(st.heap.get(val.cell), tuple):
                    # sidecar-declared type of a local that starts as an empty literal ([] / set() / {});
                    # a dict {"emptylist": T1, "emptyset": T2} covers a name reused with different container kinds
                    if isinstance(ty, dict):
                        ty = ty.get(st.heap[val.cell][0])
                    if ty is not None:
                        st.heap[val.cell] = Val(ty, ty.empty())
                        val.ty = ty
                elif isinstance(ty, V.Opt) and isinstance(val, Val) and not isinstance(val, (Ref, Func, Conc)) and val.ty is not None:
                    val = self.as_opt(val, ty) if (isinstance(val.ty, V._None) or val.ty == ty.inner or val.ty == ty) else val
            st.env[tgt.id] = val
            return [Out("normal", st)]
        if isinstance(tgt, (ast.Tuple, ast.List)):
            return self.unpack(tgt, val, st)
        if isinstance(tgt, ast.Attribute):
            outs = []
            for r in self.ev(tgt.value, st):
                if r.exc is not None:
                    outs.append(Out("raise", r.st, r.exc))
                    continue
                o = r.val
                if isinstance(o, Ref) and isinstance(r.st.getcell(o.cell), dict):
                    r.st.getcell(o.cell)[tgt.attr] = val
                    outs.append(Out("normal", r.st))
                else:
                    self.unsupported("attribute store on %r" % (o,), tgt)
            return outs
        if isinstance(tgt, ast.Subscript):
            outs = []
            results, raises = self.ev_seq([tgt.value, tgt.slice], st)
            outs.extend(self._raise_outs(raises))
            for (c, k), s in results:
                for (s2, exc) in self.B.setitem(self, c, k, val, s, tgt):
                    outs.append(Out("raise", s2, exc) if exc is not None else Out("normal", s2))
            return outs
        self.unsupported("assignment target %s" % type(tgt).__name__, tgt)

    def unpack(self, tgt, val, st):
        n = len(tgt.elts)
        if any(isinstance(e, ast.Starred) for e in tgt.elts):
            self.unsupported("starred unpacking", tgt)
        val = self.deref(val, st)
        if isinstance(val, Conc) and isinstance(val.v, tuple):
            items = list(val.v)
            if len(items) != n:
                return [Out("raise", st, Exc("ValueError"))]
            return self._assign_all(tgt.elts, items, st)
        if isinstance(val, Val) and isinstance(val.ty, V.Tuple):
            if len(val.ty.items) != n:
                return [Out("raise", st, Exc("ValueError"))]
            items = [Val(t, val.ty.field(val.term, i)) for i, t in enumerate(val.ty.items)]
            return self._assign_all(tgt.elts, items, st)
        if isinstance(val, Val) and isinstance(val.ty, V.List):
            outs = []
            ln = val.ty.n(val.term)
            bad = z3.simplify(ln != n)
            if not z3.is_false(bad) and self.feasible(st, bad):
                outs.append(Out("raise", st.fork().assume(bad), Exc("ValueError")))
            if not z3.is_true(bad):
                s2 = st.assume(ln == n)
                items = [Val(val.ty.elem, val.ty.at(val.term, i)) for i in range(n)]
                outs.extend(self._assign_all(tgt.elts, items, s2))
            return outs
        if isinstance(val, Val) and isinstance(val.ty, V._Json):
            return self.B.json_unpack(self, tgt, val, st)
        if isinstance(val, Conc) and isinstance(val.v, Unknown) and not self.spec_mode:
            # unpacking a value without contract: each target is unknown; or it is not a sequence of that length
            items = [Conc(Unknown("%s[%d]" % (val.v.why, i))) for i in range(n)]
            return self._assign_all(tgt.elts, items, st) + [Out("raise", st.fork(), Exc("Exception", exact=False))]
        self.unsupported("unpacking of %r" % (val,), tgt)

    def _assign_all(self, elts, items, st):
        cur = [Out("normal", st)]
        for e, v in zip(elts, items):
            nxt = []
            for o in cur:
                if o.kind != "normal":
                    nxt.append(o)
                else:
                    nxt.extend(self.assign(e, v, o.st))
            cur = nxt
        return cur

    def branch(self, test, st):
        """-> list of ('T'|'F'|'raise', state, exc)"""
        res = []
        for r in self.ev(test, st):
            if r.exc is not None:
                res.append(("raise", r.st, r.exc))
                continue
            c = z3.simplify(self.truthy(r.val, r.st))
            ft = not z3.is_false(c) and self.feasible(r.st, c)
            ff = not z3.is_true(c) and self.feasible(r.st, z3.Not(c))
            if ft and ff:
                res.append(("T", r.st.fork().assume(c), None))
                res.append(("F", r.st.assume(z3.Not(c)), None))
            elif ft:
                res.append(("T", r.st.assume(c), None))
            elif ff:
                res.append(("F", r.st.assume(z3.Not(c)), None))
        return res

    def ex_If(self, stmt, st):
        outs = []
        for kind, s, exc in self.branch(stmt.test, st):
            if kind == "raise":
                outs.append(Out("raise", s, exc))
            elif kind == "T":
                outs.extend(self.ex_block(stmt.body, s))
            else:
                outs.extend(self.ex_block(stmt.orelse, s))
        return outs

    def ex_FunctionDef(self, stmt, st):
        st.env[stmt.name] = self.make_closure(stmt, st)
        return [Out("normal", st)]

    ex_AsyncFunctionDef = ex_FunctionDef

    def make_closure(self, fdef, st):
        depth = len(st.frames)
        is_gen = any(isinstance(n, (ast.Yield, ast.YieldFrom)) for n in ast.walk(fdef))

        def call(sx, args, kwargs, st2, callnode):
            if is_gen:
                return [R(st2, Conc(GenClosure(fdef, args, kwargs, depth)))]
            return sx.inline_call(fdef, args, kwargs, st2, depth, callnode)

        return Func(call, "closure:%s" % fdef.name)

    def bind_params(self, fdef, args, kwargs, st):
        a = fdef.args
        params = [p.arg for p in a.posonlyargs + a.args]
        fr = {}
        defaults = list(a.defaults)
        ndef = len(defaults)
        for i, p in enumerate(params):
            if i < len(args):
                fr[p] = args[i]
            elif p in kwargs:
                fr[p] = kwargs[p]
            else:
                di = i - (len(params) - ndef)
                if di < 0:
                    self.unsupported("missing argument %s calling %s" % (p, fdef.name))
                fr[p] = self.ev1(defaults[di], st)
        for p, d in zip(a.kwonlyargs, a.kw_defaults):
            if p.arg in kwargs:
                fr[p.arg] = kwargs[p.arg]
            elif d is not None:
                fr[p.arg] = self.ev1(d, st)
        return fr

    def inline_call(self, fdef, args, kwargs, st, depth, callnode):
        """inline a closure defined inside the unit: free variables resolve in the defining frames"""
        self.call_depth += 1
        if self.call_depth > 12:
            self.unsupported("closure recursion too deep", callnode)
        fr = self.bind_params(fdef, args, kwargs, st)
        saved = st.frames[depth:]
        # closure sees defining frames (by reference) + its own frame
        st.frames = st.frames[:depth] + [fr]
        nsaved = len(saved)
        outs = self.ex_block(fdef.body, st)
        res = []
        for o in outs:
            s = o.st
            s.frames = s.frames[:depth] + self._restore(saved, s)
            if o.kind == "raise":
                res.append(R(s, None, o.val))
            elif o.kind == "return":
                res.append(R(s, o.val))
            elif o.kind == "normal":
                res.append(R(s, NONE))
            else:
                self.unsupported("break/continue escaping closure", callnode)
        self.call_depth -= 1
        return res

    def _restore(self, saved, s):
        return [dict(f) for f in saved]

    # ---- try / with
    def ex_Try(self, stmt, st):
        body_outs = self.ex_block(stmt.body, st)
        after_handlers = []
        for o in body_outs:
            if o.kind == "normal":
                after_handlers.extend(self.ex_block(stmt.orelse, o.st) if stmt.orelse else [o])
            elif o.kind == "raise":
                after_handlers.extend(self.dispatch_handlers(stmt.handlers, o))
            else:
                after_handlers.append(o)
        if not stmt.finalbody:
            return after_handlers
        final = []
        for o in after_handlers:
            for fo in self.ex_block(stmt.finalbody, o.st):
                if fo.kind == "normal":
                    final.append(Out(o.kind, fo.st, o.val))
                else:
                    final.append(fo)  # finally overrides
        return final

    def handler_classes(self, h):
        if h.type is None:
            return ["BaseException"]
        nodes = h.type.elts if isinstance(h.type, ast.Tuple) else [h.type]
        names = []
        for n in nodes:
            if isinstance(n, ast.Attribute):
                names.append(n.attr)
            elif isinstance(n, ast.Name):
                names.append(n.id)
            else:
                self.unsupported("exception handler class expression", h)
        for i, nm in enumerate(names):
            if nm not in EXC_PARENT and nm != "BaseException":
                # a class the lattice does not know (a library's exception): it may or may not be a superclass of what was raised
                names[i] = "?" + nm
        return names

    def dispatch_handlers(self, handlers, o):
        """route a raise outcome through the handler ladder"""
        exc = o.val
        pending = [(o.st, exc)]
        outs = []
        for h in handlers:
            classes = self.handler_classes(h)
            nxt = []
            for s, e in pending:
                if any(c.startswith("?") for c in classes) and not any(is_subclass(e.cls, c) for c in classes if not c.startswith("?")):
                    outs.extend(self.run_handler(h, s.fork(), e))      # an unknown class: may be caught here ...
                    nxt.append((s, e))                                  # ... or not
                    continue
                if any(is_subclass(e.cls, c) for c in classes):
                    outs.extend(self.run_handler(h, s, e))
                elif not e.exact and any(is_subclass(c, e.cls) and not any(is_subclass(c, x) for x in e.excluding) for c in classes):
                    # unknown subclass of e.cls: may or may not be caught here
                    outs.extend(self.run_handler(h, s.fork(), e))
                    nxt.append((s, e))
                else:
                    nxt.append((s, e))
            pending = nxt
        for s, e in pending:
            outs.append(Out("raise", s, e))
        return outs

    def run_handler(self, h, st, exc):
        saved = st.env.get("__active_exc__")
        st.env["__active_exc__"] = Conc(exc)
        if h.name:
            st.env[h.name] = Conc(exc)
        outs = self.ex_block(h.body, st)
        for o in outs:
            if saved is None:
                o.st.env.pop("__active_exc__", None)
            else:
                o.st.env["__active_exc__"] = saved
            if h.name:
                o.st.env.pop(h.name, None)
        return outs

    def ex_With(self, stmt, st):
        return self._with(stmt.items, stmt.body, st, stmt)

    ex_AsyncWith = ex_With

    def _with(self, items, body, st, stmt):
        if not items:
            return self.ex_block(body, st)
        item = items[0]
        outs = []
        for r in self.ev(item.context_expr, st):
            if r.exc is not None:
                outs.append(Out("raise", r.st, r.exc))
                continue
            mgr = r.val
            cm = self.reg.context_manager(self, mgr, r.st, item.context_expr)
            for er in cm.enter(self, r.st, item.context_expr):
                if er.exc is not None:
                    outs.append(Out("raise", er.st, er.exc))
                    continue
                cur = [Out("normal", er.st)]
                if item.optional_vars is not None:
                    cur = self.assign(item.optional_vars, er.val, er.st)
                for o in cur:
                    if o.kind != "normal":
                        outs.append(o)
                        continue
                    for bo in self._with(items[1:], body, o.st, stmt):
                        exc = bo.val if bo.kind == "raise" else None
                        for xr in cm.exit(self, bo.st, exc, stmt):
                            if xr.exc is not None:
                                outs.append(Out("raise", xr.st, xr.exc))
                            elif bo.kind == "raise" and xr.val is True:
                                outs.append(Out("normal", xr.st))  # suppressed
                            else:
                                outs.append(Out(bo.kind, xr.st, bo.val))
        return outs

    # ---- loops
    def assigned_names(self, stmts):
        names = set()
        for s in stmts:
            for n in ast.walk(s):
                if isinstance(n, ast.Name) and isinstance(n.ctx, (ast.Store, ast.Del)):
                    names.add(n.id)
                elif isinstance(n, (ast.FunctionDef, ast.AsyncFunctionDef)):
                    names.add(n.name)
                elif isinstance(n, ast.ExceptHandler) and n.name:
                    names.add(n.name)
        return names

    MUTATORS = {
        "append", "add", "insert", "clear", "pop", "extend", "update", "remove", "discard",
        "appendleft", "popleft", "sort", "setdefault", "put", "write", "reverse",
    }

    def frozen_cells(self, st):
        out = set()
        for c in st.heap.values():
            if isinstance(c, dict):
                for a in c.get("__frozen__", ()):
                    v = c.get(a)
                    if isinstance(v, Ref):
                        out.add(v.cell)
        return out

    def havoc_for_loop(self, body_stmts, st, extra_targets=()):
        """havoc everything the loop body may change; returns nothing (mutates st)"""
        names = self.assigned_names(body_stmts) | set(extra_targets)
        for n in names:
            if n in st.env:
                st.env[n] = self.havoc_val(st.env[n], st, n)
            elif not any(n in fr for fr in st.frames) and n not in extra_targets and not self.spec_mode:
                # a name first bound INSIDE the loop body: at the head of an arbitrary iteration it is either still unbound (first
                # iteration) or holds whatever an earlier iteration left in it -- reading it before this iteration assigns it
                # yields UnboundLocalError or a value nothing is known about (see ev_Name)
                st.env[n] = Conc(MaybeUnbound(n))
        # heap: mutated containers / objects
        mutated_all = False
        roots = set()
        for s in body_stmts:
            for n in ast.walk(s):
                if isinstance(n, ast.Call):
                    f = n.func
                    if isinstance(f, ast.Attribute) and f.attr in self.MUTATORS:
                        roots.add(ast.unparse(f.value))
                    elif isinstance(f, ast.Attribute) or isinstance(f, ast.Name):
                        fname = f.attr if isinstance(f, ast.Attribute) else f.id
                        fr = self.reg.frame_of_call(self, n, fname)
                        if fr is None:
                            mutated_all = True
                        else:
                            roots.update(fr)
                elif isinstance(n, (ast.Subscript, ast.Attribute)) and isinstance(n.ctx, (ast.Store, ast.Del)):
                    roots.add(ast.unparse(n.value))
        frozen_cells = set()
        for c in st.heap.values():
            if isinstance(c, dict):
                for a in c.get("__frozen__", ()):
                    v = c.get(a)
                    if isinstance(v, Ref):
                        frozen_cells.add(v.cell)  # configuration containers the sidecar declares immutable
        if mutated_all:
            for cell in list(st.heap):
                if cell not in frozen_cells:
                    self.havoc_cell(cell, st)
        else:
            for rexpr in roots:
                try:
                    node = ast.parse(rexpr, mode="eval").body
                    self.spec_mode += 1
                    try:
                        v = self.ev1(node, st)
                    finally:
                        self.spec_mode -= 1
                except Unsupported:
                    if isinstance(node, ast.Name) and all(node.id not in fr for fr in st.frames):
                        continue  # a name first bound inside the loop (e.g. its target): nothing from before the loop to havoc
                    for cell in list(st.heap):
                        if cell not in frozen_cells:
                            self.havoc_cell(cell, st)
                    break
                if isinstance(v, Ref):
                    self.havoc_cell(v.cell, st)
        self.reg.havoc_ghost_for_loop(self, body_stmts, st)

    def type_untyped_containers(self, stmt, st, kind, iter_info):
        """an empty [] / set() / {} literal created before the loop and filled inside it has no element type yet: run the
        body once on a scratch copy (obligations discarded) to learn the type it takes, so that the havoc at the loop head
        ranges over ALL values of that type instead of leaving it empty"""
        untyped = [c for c, v in st.heap.items() if isinstance(v, tuple)]
        if not untyped or getattr(self, "_probing", 0) > 2:
            return
        n_obl, n_cov = len(self.obligations), len(self.covers)
        saved_ord = self.hole_ordinal
        self._probing = getattr(self, "_probing", 0) + 1
        found = {}
        try:
            s0 = st.fork()
            starts = [Out("normal", s0)]
            if kind == "for" and iter_info is not None:
                k0 = self.fresh(V.Int, "probe_k", s0)
                starts = iter_info.bind(self, stmt, s0, k0)
            for so in starts:
                if so.kind != "normal":
                    continue
                for o in self.ex_block(stmt.body, so.st):
                    for c in untyped:
                        v = o.st.heap.get(c)
                        if isinstance(v, Val) and v.ty is not None:
                            found[c] = v.ty
        finally:
            self._probing -= 1
            del self.obligations[n_obl:]
            del self.covers[n_cov:]
            self.hole_ordinal = saved_ord
        for c, ty in found.items():
            st.heap[c] = Val(ty, ty.empty())
            for fr in st.frames:
                for nm, v in fr.items():
                    if isinstance(v, Ref) and v.cell == c:
                        v.ty = ty

    def havoc_cell(self, cell, st):
        c = st.getcell(cell)
        if isinstance(c, dict):
            for a, v in list(c.items()):
                if a in c.get("__frozen__", ()):  # immutable attributes declared by the sidecar
                    continue
                if isinstance(v, Val) and not isinstance(v, (Ref, Func, Conc)) and v.ty is not None and not isinstance(v.ty, V._None):
                    c[a] = self.fresh(v.ty, "h_" + str(a), st)
        elif isinstance(c, Val):
            st.setcell(cell, self.fresh(c.ty, "hc", st))
        # ('emptylist',) markers stay: unknown type; becomes typed at first use

    def havoc_val(self, v, st, name):
        if isinstance(v, (Ref, Func, Conc)):
            if isinstance(v, Conc) and isinstance(v.v, (int, str, bool, float, bytes)):
                return self.fresh(self.lift(v).ty, name, st)
            return v  # reference stays the same object; contents are havocked separately
        if v.ty is None or isinstance(v.ty, V._None):
            return v
        return self.fresh(v.ty, name, st)

    def fresh(self, ty, name, st):
        v = ty.fresh(fresh_name(name))
        if v.term is not None:
            for w in ty.wellformed(v.term):
                st.assume(w)
        return v

    def loop_spec(self, stmt):
        # loops are numbered by source order inside the unit (1, 2, ...), independent of the path taken
        ordn = getattr(self, "loop_ids", {}).get(id(stmt))
        if ordn is None:
            self.loop_ordinal += 1
            ordn = 1000 + self.loop_ordinal
        return self.reg.loop_spec(self, stmt, ordn)

    def eval_spec(self, expr_src, st, extra=None):
        """evaluate a contract expression (string) to a z3 Bool in state st"""
        node = ast.parse(expr_src.strip(), mode="eval").body
        self.spec_mode += 1
        if extra:
            st.frames.append(dict(extra))
        try:
            v = self.ev1(node, st)
            return self.truthy(v, st)
        finally:
            if extra:
                st.frames.pop()
            self.spec_mode -= 1

    def ex_While(self, stmt, st):
        spec = self.loop_spec(stmt)
        return self.run_loop(stmt, st, spec, kind="while")

    def ex_For(self, stmt, st):
        outs = []
        for r in self.ev(stmt.iter, st):
            if r.exc is not None:
                outs.append(Out("raise", r.st, r.exc))
                continue
            outs.extend(self.B.for_loop(self, stmt, r.val, r.st))
        return outs

    ex_AsyncFor = ex_For

    def run_loop(self, stmt, st, spec, kind, iter_info=None):
        """
        Invariant-based loop cut.  spec: LoopSpec(label, invariants=[(name, src)], index=name|None, unroll=False)
        iter_info (for `for` loops): object with .has_next(st, k) -> z3 Bool, .bind(st, k) -> list of Out
        (bind assigns the loop target), .length or None
        """
        label = spec.label
        fn = self.cur_func
        idx = spec.index or "_k"
        base = "%s/loop%s" % (fn, label)
        k0 = V.mk_int(0)
        extra0 = {idx: k0}
        if iter_info is not None:
            extra0.update(iter_info.spec_env(st))
        # 1. initiation
        for (iname, src) in spec.invariants:
            c = self.eval_spec(src, st, extra0)
            self.oblige(st, "%s/inv:%s:init" % (base, iname), c, "loop-init", stmt)
        # 2. havoc
        targets = self.assigned_names([stmt.target]) if kind == "for" else set()
        self.type_untyped_containers(stmt, st, kind, iter_info)
        self.havoc_for_loop(stmt.body, st, targets)
        # locals first assigned inside the loop: declared by the sidecar so that iteration posts can mention them
        for nm, ty in (getattr(self.unit, "loop_locals", None) or {}).items():
            cur = st.env.get(nm)
            if nm not in st.env or (isinstance(cur, Conc) and isinstance(cur.v, MaybeUnbound)):
                st.env[nm] = self.fresh(ty, nm, st)
        k = self.fresh(V.Int, idx, st)
        st.assume(k.term >= 0)
        extra = {idx: k}
        if iter_info is not None:
            extra.update(iter_info.spec_env(st))
            b = iter_info.bound(st)
            if b is not None:
                st.assume(k.term <= b)
        for (iname, src) in spec.invariants:
            st.assume(self.eval_spec(src, st, extra))
        outs = []
        # 3. iteration branch
        if kind == "while":
            branches = self.branch(stmt.test, st.fork())
        else:
            branches = []
            hn = z3.simplify(iter_info.has_next(st, k))
            if not z3.is_false(hn) and self.feasible(st, hn):
                branches.append(("T", st.fork().assume(hn), None))
            if not z3.is_true(hn) and self.feasible(st, z3.Not(hn)):
                branches.append(("F", st.fork().assume(z3.Not(hn)), None))
        for bk, s, exc in branches:
            if bk == "raise":
                outs.append(Out("raise", s, exc))
            elif bk == "T":
                if kind == "for":
                    starts = iter_info.bind(self, stmt, s, k)
                else:
                    starts = [Out("normal", s)]
                for so in starts:
                    if so.kind != "normal":
                        outs.append(so)
                        continue
                    so.st.env[idx] = k
                    head_ghost = dict(so.st.ghost)
                    for hn, hexpr in (getattr(spec, "head_snap", None) or {}).items():
                        self.spec_mode += 1
                        try:
                            hv = self.ev1(ast.parse(hexpr, mode="eval").body, so.st)
                        finally:
                            self.spec_mode -= 1
                        head_ghost["__local_" + hn] = self.deref(hv, so.st)
                    if spec.iter_post:
                        # snapshot of the locals at the head of this iteration (head_<name> in iteration posts)
                        for nm, vv in list(so.st.env.items()):
                            if nm.startswith("__") or nm.startswith("head_"):
                                continue
                            dv = vv
                            if isinstance(vv, Ref):
                                cc = so.st.heap.get(vv.cell)
                                if isinstance(cc, dict) or isinstance(cc, tuple):
                                    continue
                                dv = so.st.getcell(vv.cell)
                            if isinstance(dv, Val) and not isinstance(dv, (Ref, Func, Conc)) and dv.ty is not None:
                                head_ghost["__local_" + nm] = dv
                    for bo in self.ex_block(stmt.body, so.st):
                        if bo.kind in ("normal", "continue"):
                            k1 = Val(V.Int, k.term + 1)
                            ex2 = dict(extra)
                            ex2[idx] = k1
                            if iter_info is not None:
                                ex2.update(iter_info.spec_env(bo.st))
                            for (iname, src) in spec.invariants:
                                c = self.eval_spec(src, bo.st, ex2)
                                self.oblige(bo.st, "%s/inv:%s:preserve" % (base, iname), c, "loop-preserve", stmt)
                            self.reg.iteration_end(self, spec, bo, head_ghost, stmt)
                            # path ends here (cut)
                        elif bo.kind == "break":
                            self.reg.iteration_end(self, spec, bo, head_ghost, stmt)
                            outs.append(Out("normal", bo.st))
                        else:
                            if bo.kind == "raise":
                                self.reg.iteration_end(self, spec, bo, head_ghost, stmt)
                            outs.append(bo)
            else:
                # loop exit: else clause then continue
                if iter_info is not None and hasattr(iter_info, "on_exit"):
                    iter_info.on_exit(self, s)
                if stmt.orelse:
                    outs.extend(self.ex_block(stmt.orelse, s))
                else:
                    outs.append(Out("normal", s))
        return outs


class HetList:
    """a freshly built list literal with elements of different python types (not modelled as mutable)"""

    def __init__(self, items):
        self.items = list(items)

    def __pyvc_getitem__(self, sx, k, st, node):
        kk = z3.simplify(k.term)
        if z3.is_int_value(kk) and -len(self.items) <= kk.as_long() < len(self.items):
            return [R(st, self.items[kk.as_long()])]
        raise Unsupported("symbolic index into a mixed-type list literal", node)

    def __pyvc_len__(self, sx, st, node):
        return [R(st, V.mk_int(len(self.items)))]


class GenClosure:
    """a generator closure defined inside the unit (e.g. Index.scanner.iterator)"""

    def __init__(self, fdef, args, kwargs, depth):
        self.fdef = fdef
        self.args = args
        self.kwargs = kwargs
        self.depth = depth


class LoopSpec:
    def __init__(self, label, invariants=(), index=None, iter_post=(), unroll=False, head_snap=None):
        self.head_snap = head_snap or {}
        self.label = label
        self.invariants = list(invariants)
        self.index = index
        self.iter_post = list(iter_post)
        self.unroll = unroll
