"""
pyvc.vals -- type descriptors and symbolic values.

Every first-class symbolic value is a pair (type descriptor, z3 term).  Mutable
containers and objects live in the executor's heap and are referred to through
`Ref` values (concrete identities: no symbolic aliasing is modelled).

Python semantics encoded here (stated, cross-checked against CPython by the
thorough tier):
  int   -> z3 Int  (mathematical, as in CPython)
  float -> z3 Real (only clock values; rounding ignored)
  bool  -> z3 Bool
  str / bytes -> z3 String (bytes = code points 0..255; `<` is lexicographic by
           code point, which is Python's order for both)
  list/tuple of unknown length -> datatype (arr: Array Int T, n: Int), n >= 0
  fixed tuple -> z3 datatype
  Optional[T] -> datatype none | some(T)
  set[T] -> Array T Bool ; dict[K,V] -> (dom: Array K Bool, map: Array K V)
"""
import z3

_sort_cache = {}
_dt_ids = {}


def _uid(key):
    # unique constructor/selector names per datatype (SMT-LIB exports must not reuse names across datatypes)
    if key not in _dt_ids:
        _dt_ids[key] = len(_dt_ids) + 1
    return _dt_ids[key]


class Ty:
    name = "?"

    def sort(self):
        raise NotImplementedError

    def fresh(self, name):
        return Val(self, z3.Const(name, self.sort()))

    def wellformed(self, term):
        """list of z3 Bool facts that hold of every value of this type"""
        return []

    def __repr__(self):
        return self.name

    def __eq__(self, other):
        return isinstance(other, Ty) and repr(self) == repr(other)

    def __hash__(self):
        return hash(repr(self))


class _Int(Ty):
    name = "Int"

    def sort(self):
        return z3.IntSort()


class _Real(Ty):
    name = "Real"

    def sort(self):
        return z3.RealSort()


class _Bool(Ty):
    name = "Bool"

    def sort(self):
        return z3.BoolSort()


class _Str(Ty):
    name = "Str"

    def sort(self):
        return z3.StringSort()


class _Bytes(Ty):
    name = "Bytes"

    def sort(self):
        return z3.StringSort()


class _None(Ty):
    name = "None"

    def sort(self):
        if "None" not in _sort_cache:
            d = z3.Datatype("NoneT")
            d.declare("none")
            _sort_cache["None"] = d.create()
        return _sort_cache["None"]

    def fresh(self, name):
        return NONE


class _Json(Ty):
    """opaque, client-controlled JSON value (uninterpreted sort)"""

    name = "Json"

    def sort(self):
        if "Json" not in _sort_cache:
            _sort_cache["Json"] = z3.DeclareSort("Json")
        return _sort_cache["Json"]

    def wellformed(self, term):
        from . import builtins as B
        return B.json_facts(term)


class Opaque(Ty):
    """uninterpreted sort with a name: values only support equality"""

    def __init__(self, name):
        self.name = "Opaque[%s]" % name
        self._n = name

    def sort(self):
        k = ("Opaque", self._n)
        if k not in _sort_cache:
            _sort_cache[k] = z3.DeclareSort("U_" + self._n)
        return _sort_cache[k]


Int, Real, Bool, Str, Bytes, NoneT, Json = _Int(), _Real(), _Bool(), _Str(), _Bytes(), _None(), _Json()


def _sname(ty):
    return repr(ty).replace("[", "_").replace("]", "").replace(",", "_").replace(" ", "")


class Opt(Ty):
    def __init__(self, inner):
        self.inner = inner
        self.name = "Opt[%r]" % inner

    def sort(self):
        k = ("Opt", repr(self.inner))
        if k not in _sort_cache:
            u = _uid(k)
            d = z3.Datatype("Opt_" + _sname(self.inner))
            d.declare("none%d" % u)
            d.declare("some%d" % u, ("val%d" % u, self.inner.sort()))
            _sort_cache[k] = d.create()
        return _sort_cache[k]

    def _u(self):
        return _uid(("Opt", repr(self.inner)))

    def is_none(self, term):
        return getattr(self.sort(), "is_none%d" % self._u())(term)

    def get(self, term):
        return getattr(self.sort(), "val%d" % self._u())(term)

    def some(self, term):
        return getattr(self.sort(), "some%d" % self._u())(term)

    def none(self):
        return getattr(self.sort(), "none%d" % self._u())

    def wellformed(self, term):
        return [z3.Implies(z3.Not(self.is_none(term)), w) for w in self.inner.wellformed(self.get(term))]


class Tuple(Ty):
    def __init__(self, *items):
        self.items = list(items)
        self.name = "Tuple[%s]" % ",".join(repr(i) for i in items)

    def sort(self):
        k = ("Tuple", self.name)
        if k not in _sort_cache:
            u = _uid(k)
            d = z3.Datatype("Tup_" + _sname(self))
            d.declare("tup%d" % u, *[("f%d_%d" % (i, u), t.sort()) for i, t in enumerate(self.items)])
            _sort_cache[k] = d.create()
        return _sort_cache[k]

    def field(self, term, i):
        return getattr(self.sort(), "f%d_%d" % (i, _uid(("Tuple", self.name))))(term)

    def mk(self, *terms):
        return getattr(self.sort(), "tup%d" % _uid(("Tuple", self.name)))(*terms)

    def wellformed(self, term):
        out = []
        for i, t in enumerate(self.items):
            out += t.wellformed(self.field(term, i))
        return out


class List(Ty):
    """Python list / tuple of unknown length / deque: (arr, n)"""

    def __init__(self, elem):
        self.elem = elem
        self.name = "List[%r]" % elem

    def sort(self):
        k = ("List", repr(self.elem))
        if k not in _sort_cache:
            u = _uid(k)
            d = z3.Datatype("List_" + _sname(self.elem))
            d.declare("list%d" % u, ("arr%d" % u, z3.ArraySort(z3.IntSort(), self.elem.sort())), ("len%d" % u, z3.IntSort()))
            _sort_cache[k] = d.create()
        return _sort_cache[k]

    def _u(self):
        return _uid(("List", repr(self.elem)))

    def arr(self, term):
        return getattr(self.sort(), "arr%d" % self._u())(term)

    def n(self, term):
        return getattr(self.sort(), "len%d" % self._u())(term)

    def mk(self, arr, n):
        return getattr(self.sort(), "list%d" % self._u())(arr, n)

    def at(self, term, i):
        return z3.Select(self.arr(term), i)

    def empty(self):
        return self.mk(z3.K(z3.IntSort(), _default_term(self.elem)), z3.IntVal(0))

    def wellformed(self, term):
        out = [self.n(term) >= 0]
        i = z3.Int("wf_i!%s" % _sname(self))
        inner = self.elem.wellformed(self.at(term, i))
        if inner:
            out.append(z3.ForAll([i], z3.Implies(z3.And(i >= 0, i < self.n(term)), z3.And(*inner))))
        return out


class Set(Ty):
    def __init__(self, elem):
        self.elem = elem
        self.name = "Set[%r]" % elem

    def sort(self):
        return z3.ArraySort(self.elem.sort(), z3.BoolSort())

    def empty(self):
        return z3.K(self.elem.sort(), z3.BoolVal(False))


class Dict(Ty):
    def __init__(self, k, v):
        self.k, self.v = k, v
        self.name = "Dict[%r,%r]" % (k, v)

    def sort(self):
        key = ("Dict", self.name)
        if key not in _sort_cache:
            u = _uid(key)
            d = z3.Datatype("Dict_" + _sname(self))
            d.declare(
                "dict%d" % u,
                ("dom%d" % u, z3.ArraySort(self.k.sort(), z3.BoolSort())),
                ("map%d" % u, z3.ArraySort(self.k.sort(), self.v.sort())),
                ("size%d" % u, z3.IntSort()),
            )
            _sort_cache[key] = d.create()
        return _sort_cache[key]

    def _u(self):
        return _uid(("Dict", self.name))

    def dom(self, term):
        return getattr(self.sort(), "dom%d" % self._u())(term)

    def map(self, term):
        return getattr(self.sort(), "map%d" % self._u())(term)

    def size(self, term):
        return getattr(self.sort(), "size%d" % self._u())(term)

    def mk(self, dom, mp, size):
        return getattr(self.sort(), "dict%d" % self._u())(dom, mp, size)

    def empty(self):
        return self.mk(z3.K(self.k.sort(), z3.BoolVal(False)), z3.K(self.k.sort(), _default_term(self.v)), z3.IntVal(0))

    def put(self, term, k, v):
        """d[k] = v"""
        has = z3.Select(self.dom(term), k)
        return self.mk(z3.Store(self.dom(term), k, True), z3.Store(self.map(term), k, v), z3.If(has, self.size(term), self.size(term) + 1))

    def remove(self, term, k):
        """del d[k] (k present or not)"""
        has = z3.Select(self.dom(term), k)
        return self.mk(z3.Store(self.dom(term), k, False), self.map(term), z3.If(has, self.size(term) - 1, self.size(term)))

    def wellformed(self, term):
        # len(d) is carried explicitly: non-negative, zero exactly when no key is present (one direction triggered on dom[k])
        k = z3.Const("wf_k!%s" % _sname(self), self.k.sort())
        dom = self.dom(term)
        out = [self.size(term) >= 0,
               z3.ForAll([k], z3.Implies(z3.Select(dom, k), self.size(term) >= 1), patterns=[z3.Select(dom, k)])]
        return out


class Map(Ty):
    """total map K -> V (ghost maps, python defaultdict: a missing key reads as the default value)"""

    def __init__(self, k, v):
        self.k, self.v = k, v
        self.name = "Map[%r,%r]" % (k, v)

    def sort(self):
        return z3.ArraySort(self.k.sort(), self.v.sort())


class Rec(Ty):
    """immutable record (e.g. aionostr Event, NostrQuery): datatype with named fields"""

    def __init__(self, name, fields):
        self.rname = name
        self.fields = dict(fields)
        self.name = "Rec[%s]" % name

    def sort(self):
        k = ("Rec", self.rname)
        if k not in _sort_cache:
            d = z3.Datatype("Rec_" + self.rname)
            d.declare("mk_" + self.rname, *[("%s_%s" % (self.rname, f), t.sort()) for f, t in self.fields.items()])
            _sort_cache[k] = d.create()
        return _sort_cache[k]

    def get(self, term, f):
        return getattr(self.sort(), "%s_%s" % (self.rname, f))(term)

    def mk(self, **kw):
        return getattr(self.sort(), "mk_" + self.rname)(*[kw[f] for f in self.fields])

    def wellformed(self, term):
        out = []
        for f, t in self.fields.items():
            out += t.wellformed(self.get(term, f))
        return out


class ObjT(Ty):
    """heap object of a named class; not embeddable in SMT terms"""

    def __init__(self, cls):
        self.cls = cls
        self.name = "Obj[%s]" % cls

    def sort(self):
        raise TypeError("heap objects have no SMT sort: " + self.name)


class Val:
    __slots__ = ("ty", "term", "aux")

    def __init__(self, ty, term, aux=None):
        self.ty = ty
        self.term = term
        self.aux = aux  # engine-side facts about the value (e.g. {"ne": z3 Bool} = non-emptiness of a set)

    def __repr__(self):
        return "<%r %s>" % (self.ty, self.term)


class Ref(Val):
    """reference to a heap cell (mutable list/dict/set value or object)"""

    __slots__ = ("cell",)

    def __init__(self, ty, cell):
        self.ty = ty
        self.cell = cell
        self.term = None
        self.aux = None

    def __repr__(self):
        return "<ref %r #%s>" % (self.ty, self.cell)


class Func(Val):
    """python-level callable (model function, closure, bound method)"""

    __slots__ = ("fn", "label")

    def __init__(self, fn, label="fn"):
        self.ty = None
        self.term = None
        self.aux = None
        self.fn = fn
        self.label = label

    def __repr__(self):
        return "<func %s>" % self.label


class Conc(Val):
    """concrete python value carried through (module objects, classes, literal tuples of mixed things)"""

    __slots__ = ("v",)

    def __init__(self, v):
        self.ty = None
        self.term = None
        self.aux = None
        self.v = v

    def __repr__(self):
        return "<conc %r>" % (self.v,)


NONE = Val(NoneT, None)


def _default_term(ty):
    s = ty.sort()
    if isinstance(ty, _Int):
        return z3.IntVal(0)
    if isinstance(ty, _Real):
        return z3.RealVal(0)
    if isinstance(ty, _Bool):
        return z3.BoolVal(False)
    if isinstance(ty, (_Str, _Bytes)):
        return z3.StringVal("")
    return z3.Const("dflt!" + _sname(ty), s)


def mk_int(i):
    return Val(Int, z3.IntVal(i))


def mk_bool(b):
    return Val(Bool, z3.BoolVal(bool(b)))


def mk_str(s):
    return Val(Str, z3.StringVal(s))


def mk_bytes(b):
    return Val(Bytes, z3.StringVal("".join(chr(c) for c in b)))


def is_ty(v, *tys):
    return isinstance(v, Val) and isinstance(v.ty, tys)
