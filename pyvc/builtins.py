"""
pyvc.builtins -- python operators, builtin functions and methods over symbolic values.
Part 1: operators, indexing, containers.  (methods/builtins/fstrings in builtins2.py, re-exported here)
"""
import ast
import z3

from . import vals as V
from .vals import Val, Ref, Func, Conc, NONE
from .sx import R, Out, Exc, Unsupported, fresh_name, LoopSpec

# ---------------------------------------------------------------- Json (opaque client data)
_J = {}


def J():
    """uninterpreted vocabulary over the Json sort"""
    if not _J:
        js = V.Json.sort()
        _J["kind"] = z3.Function("j_kind", js, z3.IntSort())  # 0 null 1 bool 2 int 3 float 4 str 5 list 6 dict
        _J["str"] = z3.Function("j_str", js, z3.StringSort())
        _J["int"] = z3.Function("j_int", js, z3.IntSort())
        _J["bool"] = z3.Function("j_bool", js, z3.BoolSort())
        _J["len"] = z3.Function("j_len", js, z3.IntSort())
        _J["item"] = z3.Function("j_item", js, z3.IntSort(), js)
        _J["get"] = z3.Function("j_get", js, z3.StringSort(), js)
        _J["has"] = z3.Function("j_has", js, z3.StringSort(), z3.BoolSort())
        _J["of_str"] = z3.Function("j_of_str", z3.StringSort(), js)
        _J["of_int"] = z3.Function("j_of_int", z3.IntSort(), js)
    return _J


JNULL, JBOOL, JINT, JFLOAT, JSTR, JLIST, JDICT = range(7)


def json_facts(term):
    j = J()
    return [j["kind"](term) >= 0, j["kind"](term) <= 6, j["len"](term) >= 0,
            z3.Implies(j["kind"](term) == JSTR, j["len"](term) == z3.Length(j["str"](term)))]


def json_truthy(term):
    j = J()
    k = j["kind"](term)
    return z3.And(
        k != JNULL,
        z3.Implies(k == JBOOL, j["bool"](term)),
        z3.Implies(k == JINT, j["int"](term) != 0),
        z3.Implies(k == JSTR, z3.Length(j["str"](term)) > 0),
        z3.Implies(z3.Or(k == JLIST, k == JDICT), j["len"](term) > 0),
        z3.Implies(k == JFLOAT, j["bool"](term)),
    )


def json_is_null(term):
    return J()["kind"](term) == JNULL


def json_eq(sx, jv, other):
    j = J()
    if isinstance(other.ty, V._Str):
        return z3.And(j["kind"](jv.term) == JSTR, j["str"](jv.term) == other.term)
    if isinstance(other.ty, V._Int):
        return z3.And(z3.Or(j["kind"](jv.term) == JINT, j["kind"](jv.term) == JFLOAT, j["kind"](jv.term) == JBOOL),
                      z3.Implies(j["kind"](jv.term) == JINT, j["int"](jv.term) == other.term),
                      z3.Implies(j["kind"](jv.term) != JINT, z3.Bool(fresh_name("jeq"))))
    if isinstance(other.ty, V._Json):
        return jv.term == other.term
    return z3.Bool(fresh_name("jeq"))


def to_json(sx, v, st):
    j = J()
    if isinstance(v.ty, V._Str):
        t = j["of_str"](v.term)
        st.assume(j["kind"](t) == JSTR)
        st.assume(j["str"](t) == v.term)
        return Val(V.Json, t)
    if isinstance(v.ty, V._Int):
        t = j["of_int"](v.term)
        st.assume(j["kind"](t) == JINT)
        st.assume(j["int"](t) == v.term)
        return Val(V.Json, t)
    raise Unsupported("to_json of %r" % (v.ty,))


def fresh_json(sx, st, name="j"):
    v = V.Json.fresh(fresh_name(name))
    for f in json_facts(v.term):
        st.assume(f)
    return v


JSON_ERRS = ("TypeError", "KeyError", "IndexError")


def json_index(sx, jv, key, st, node):
    """jv[key] on opaque JSON: IndexError/KeyError/TypeError edges are explicit"""
    j = J()
    outs = []
    k = j["kind"](jv.term)
    key = sx.lift(key) if isinstance(key, Conc) else key
    if sx.spec_mode:
        # contract expressions: total selector functions, no exceptional edges
        if isinstance(key.ty, V._Int):
            n = j["len"](jv.term)
            return [R(st, Val(V.Json, j["item"](jv.term, z3.If(key.term >= 0, key.term, n + key.term))))]
        if isinstance(key.ty, V._Str):
            return [R(st, Val(V.Json, j["get"](jv.term, key.term)))]
    if isinstance(key.ty, V._Int):
        # list index (or str index): succeed iff list/str with len > idx
        idx = key.term
        n = j["len"](jv.term)
        okc = z3.And(z3.Or(k == JLIST, k == JSTR), z3.If(idx >= 0, idx < n, -idx <= n))
        s_ok = st.fork().assume(okc)
        if sx.feasible(s_ok):
            it = j["item"](jv.term, z3.If(idx >= 0, idx, n + idx))
            for f in json_facts(it):
                s_ok.assume(f)
            s_ok.assume(z3.Implies(k == JSTR, z3.And(j["kind"](it) == JSTR, z3.Length(j["str"](it)) == 1)))
            outs.append(R(s_ok, Val(V.Json, it)))
        s_ie = st.fork().assume(z3.And(z3.Or(k == JLIST, k == JSTR), z3.Not(okc)))
        if sx.feasible(s_ie):
            outs.append(R(s_ie, None, Exc("IndexError")))
        s_ke = st.fork().assume(k == JDICT)
        if sx.feasible(s_ke):
            outs.append(R(s_ke, None, Exc("KeyError")))
        s_te = st.fork().assume(z3.And(k != JLIST, k != JSTR, k != JDICT))
        if sx.feasible(s_te):
            outs.append(R(s_te, None, Exc("TypeError")))
        return outs
    if isinstance(key.ty, V._Str):
        s_ok = st.fork().assume(z3.And(k == JDICT, j["has"](jv.term, key.term)))
        if sx.feasible(s_ok):
            it = j["get"](jv.term, key.term)
            for f in json_facts(it):
                s_ok.assume(f)
            outs.append(R(s_ok, Val(V.Json, it)))
        s_ke = st.fork().assume(z3.And(k == JDICT, z3.Not(j["has"](jv.term, key.term))))
        if sx.feasible(s_ke):
            outs.append(R(s_ke, None, Exc("KeyError")))
        s_te = st.fork().assume(k != JDICT)
        if sx.feasible(s_te):
            outs.append(R(s_te, None, Exc("TypeError")))
        return outs
    raise Unsupported("json index with %r" % (key.ty,), node)


def json_unpack(sx, tgt, val, st):
    j = J()
    n = len(tgt.elts)
    k = j["kind"](val.term)
    outs = []
    ok = z3.And(z3.Or(k == JLIST), j["len"](val.term) == n)
    s1 = st.fork().assume(ok)
    if sx.feasible(s1):
        items = []
        for i in range(n):
            it = j["item"](val.term, i)
            for f in json_facts(it):
                s1.assume(f)
            items.append(Val(V.Json, it))
        outs.extend(sx._assign_all(tgt.elts, items, s1))
    s2 = st.fork().assume(z3.Not(ok))
    if sx.feasible(s2):
        outs.append(Out("raise", s2, Exc("Exception", exact=False)))
    return outs


# ---------------------------------------------------------------- containment, ordering
def _lst(sx, c, st):
    c = sx.deref(c, st)
    return c


def typed_empty(sx, ref, st, elem_ty, kind="list"):
    """an ('emptylist',) placeholder cell gets its element type at first typed use"""
    c = st.getcell(ref.cell)
    if isinstance(c, tuple) and c[0] == "emptylist":
        t = V.List(elem_ty)
        st.setcell(ref.cell, Val(t, t.empty()))
        ref.ty = t
    elif isinstance(c, tuple) and c[0] == "emptyset":
        t = V.Set(elem_ty)
        st.setcell(ref.cell, Val(t, t.empty()))
        ref.ty = t
    return st.getcell(ref.cell)


def contains(sx, container, item, st, node):
    """item in container -> list of (state, z3 Bool|None, Exc|None)"""
    item = sx.lift(item) if isinstance(item, Conc) else sx.deref(item, st)
    if isinstance(container, Conc):
        cv = container.v
        if isinstance(cv, tuple):
            if not cv:
                return [(st, z3.BoolVal(False), None)]
            return [(st, z3.Or(*[sx.eq(item, x, st) for x in cv]), None)]
        if isinstance(cv, dict):
            return [(st, z3.Or(*[sx.eq(item, V.mk_str(k), st) for k in cv]) if cv else z3.BoolVal(False), None)]
        if isinstance(cv, str):
            container = V.mk_str(cv)
        elif hasattr(cv, "__pyvc_contains__"):
            return cv.__pyvc_contains__(sx, item, st, node)
        else:
            from .sx import Unknown as _Unk
            if isinstance(cv, _Unk) and not sx.spec_mode:
                # membership in a value without contract: either answer (or TypeError)
                return [(st, z3.Bool(fresh_name("unknown_in")), None), (st.fork(), None, Exc("TypeError"))]
            raise Unsupported("`in` on concrete %r" % (cv,), node)
    if isinstance(container, Ref):
        c = st.getcell(container.cell)
        if isinstance(c, tuple):
            return [(st, z3.BoolVal(False), None)]
        if isinstance(c, dict):
            m = sx.reg.obj_contains(sx, container, item, st, node)
            if m is not None:
                return m
            raise Unsupported("`in` on object %r" % (container.ty,), node)
        container = c
    t = container.ty
    if isinstance(t, (V._Str, V._Bytes)):
        if isinstance(item.ty, (V._Str, V._Bytes)):
            return [(st, z3.Contains(container.term, item.term), None)]
        if isinstance(item.ty, V._Json):
            j = J()
            outs = []
            s1 = st.fork().assume(j["kind"](item.term) == JSTR)
            if sx.feasible(s1):
                outs.append((s1, z3.Contains(container.term, j["str"](item.term)), None))
            s2 = st.fork().assume(j["kind"](item.term) != JSTR)
            if sx.feasible(s2):
                outs.append((s2, None, Exc("TypeError")))
            return outs
        return [(st, None, Exc("TypeError"))]
    if isinstance(t, V.List):
        i = z3.Int(fresh_name("ci"))
        e = Val(t.elem, t.at(container.term, i))
        body = z3.And(i >= 0, i < t.n(container.term), sx.eq(e, item, st))
        return [(st, z3.Exists([i], body), None)]
    if isinstance(t, V.Tuple):
        if not t.items:
            return [(st, z3.BoolVal(False), None)]
        return [(st, z3.Or(*[sx.eq(Val(it, t.field(container.term, k)), item, st) for k, it in enumerate(t.items)]), None)]
    if isinstance(t, V.Set):
        if item.ty != t.elem:
            try:
                item = sx.coerce(item, t.elem, st)
            except Unsupported:
                return [(st, z3.BoolVal(False), None)]
        return [(st, z3.Select(container.term, item.term), None)]
    if isinstance(t, V.Dict):
        if isinstance(item.ty, V.Opt) and item.ty.inner == t.k:
            return [(st, z3.And(z3.Not(item.ty.is_none(item.term)), z3.Select(t.dom(container.term), item.ty.get(item.term))), None)]
        if item.ty != t.k:
            return [(st, z3.BoolVal(False), None)]
        return [(st, z3.Select(t.dom(container.term), item.term), None)]
    if isinstance(t, V.Opt):
        outs = []
        isn = t.is_none(container.term)
        s1 = st.fork().assume(isn)
        if sx.feasible(s1):
            outs.append((s1, None, Exc("TypeError")))
        s2 = st.fork().assume(z3.Not(isn))
        if sx.feasible(s2):
            outs.extend(contains(sx, Val(t.inner, t.get(container.term)), item, s2, node))
        return outs
    if isinstance(t, V._Json):
        # membership in opaque JSON: unknown boolean, TypeError if not a container
        j = J()
        outs = []
        k = j["kind"](container.term)
        s1 = st.fork().assume(z3.Or(k == JLIST, k == JDICT, k == JSTR))
        if sx.feasible(s1):
            outs.append((s1, z3.Bool(fresh_name("jin")), None))
        s2 = st.fork().assume(z3.Not(z3.Or(k == JLIST, k == JDICT, k == JSTR)))
        if sx.feasible(s2):
            outs.append((s2, None, Exc("TypeError")))
        return outs
    if isinstance(t, V._None):
        return [(st, None, Exc("TypeError"))]
    raise Unsupported("`in` on %r" % (t,), node)


def order(sx, op, a, b, st, node):
    ta, tb = a.ty, b.ty
    num = (V._Int, V._Real, V._Bool)

    def mk(x, y):
        if isinstance(op, ast.Lt):
            return x < y
        if isinstance(op, ast.LtE):
            return x <= y
        if isinstance(op, ast.Gt):
            return x > y
        if isinstance(op, ast.GtE):
            return x >= y
        raise Unsupported("comparison op", node)

    if isinstance(ta, num) and isinstance(tb, num):
        return [(st, mk(sx.num(a), sx.num(b)), None)]
    if isinstance(ta, (V._Str, V._Bytes)) and type(ta) is type(tb):
        return [(st, mk(a.term, b.term), None)]
    if isinstance(ta, V.Opt) or isinstance(tb, V.Opt):
        # comparing None raises TypeError
        outs = []
        conds = []
        if isinstance(ta, V.Opt):
            conds.append(ta.is_none(a.term))
        if isinstance(tb, V.Opt):
            conds.append(tb.is_none(b.term))
        anynone = z3.Or(*conds)
        s1 = st.fork().assume(anynone)
        if not sx.spec_mode and sx.feasible(s1):
            outs.append((s1, None, Exc("TypeError")))
        s2 = st.fork().assume(z3.Not(anynone))
        if sx.spec_mode or sx.feasible(s2):
            a2 = Val(ta.inner, ta.get(a.term)) if isinstance(ta, V.Opt) else a
            b2 = Val(tb.inner, tb.get(b.term)) if isinstance(tb, V.Opt) else b
            outs.extend(order(sx, op, a2, b2, s2, node))
        return outs
    if isinstance(ta, V.Tuple) and isinstance(tb, V.Tuple) and len(ta.items) == len(tb.items) and ta.items:
        # lexicographic
        def lex(i):
            x = Val(ta.items[i], ta.field(a.term, i))
            y = Val(tb.items[i], tb.field(b.term, i))
            if i == len(ta.items) - 1:
                return order(sx, op, x, y, st, node)[0][1]
            strict = ast.Lt() if isinstance(op, (ast.Lt, ast.LtE)) else ast.Gt()
            return z3.Or(order(sx, strict, x, y, st, node)[0][1], z3.And(sx.eq(x, y, st), lex(i + 1)))

        return [(st, lex(0), None)]
    if isinstance(ta, V._None) or isinstance(tb, V._None):
        return [(st, None, Exc("TypeError"))]
    if (isinstance(ta, V._Json) and isinstance(tb, num)) or (isinstance(tb, V._Json) and isinstance(ta, num)):
        # a JSON value against a number: exact for a JSON integer, some answer for float / bool, TypeError for anything else
        j = J()
        jv = a if isinstance(ta, V._Json) else b
        k = j["kind"](jv.term)
        outs = []
        s1 = st.fork().assume(k == JINT)
        if sx.spec_mode or sx.feasible(s1):
            ji = j["int"](jv.term)
            outs.append((s1, mk(ji, sx.num(b)) if jv is a else mk(sx.num(a), ji), None))
        if not sx.spec_mode:
            s2 = st.fork().assume(z3.Or(k == JFLOAT, k == JBOOL))
            if sx.feasible(s2):
                outs.append((s2, z3.Bool(fresh_name("jcmp")), None))
            s3 = st.fork().assume(z3.Not(z3.Or(k == JINT, k == JFLOAT, k == JBOOL)))
            if sx.feasible(s3):
                outs.append((s3, None, Exc("TypeError")))
        return outs
    if isinstance(ta, V._Json) or isinstance(tb, V._Json):
        outs = [(st.fork(), z3.Bool(fresh_name("jcmp")), None), (st.fork(), None, Exc("TypeError"))]
        return outs
    if type(ta) is not type(tb):
        return [(st, None, Exc("TypeError"))]
    raise Unsupported("ordering of %r and %r" % (ta, tb), node)


# ---------------------------------------------------------------- arithmetic and friends
def binop(sx, op, a, b, st, node):
    for x in (a, b):
        if isinstance(x, Conc) and hasattr(x.v, "__pyvc_binop__"):
            return x.v.__pyvc_binop__(sx, op, a, b, st, node)
    a0, b0 = a, b
    a = sx.deref(sx.lift(a) if isinstance(a, Conc) and not isinstance(a.v, (tuple, dict)) else a, st)
    b = sx.deref(sx.lift(b) if isinstance(b, Conc) and not isinstance(b.v, (tuple, dict)) else b, st)
    if isinstance(op, ast.Mod) and isinstance(a, Val) and isinstance(a.ty, (V._Str, V._Bytes)) and not isinstance(a, Conc):
        from . import builtins2 as B2

        return B2.percent_format(sx, a, b0, st, node)
    if isinstance(a, Conc) or isinstance(b, Conc):
        raise Unsupported("binary op on %r, %r" % (a, b), node)
    ta, tb = a.ty, b.ty
    num = (V._Int, V._Real, V._Bool)
    if isinstance(ta, num) and isinstance(tb, num):
        x, y = sx.num(a), sx.num(b)
        is_real = isinstance(ta, V._Real) or isinstance(tb, V._Real)
        rt = V.Real if is_real else V.Int
        if isinstance(op, ast.Add):
            return [R(st, Val(rt, x + y))]
        if isinstance(op, ast.Sub):
            return [R(st, Val(rt, x - y))]
        if isinstance(op, ast.Mult):
            return [R(st, Val(rt, x * y))]
        if isinstance(op, (ast.FloorDiv, ast.Mod, ast.Div)):
            outs = []
            z = z3.simplify(y == 0)
            if not z3.is_false(z) and not sx.spec_mode and sx.feasible(st, z):
                outs.append(R(st.fork().assume(z), None, Exc("ZeroDivisionError")))
            s2 = st.assume(y != 0)
            if isinstance(op, ast.Div):
                outs.append(R(s2, Val(V.Real, z3.ToReal(x) / z3.ToReal(y) if not is_real else x / y)))
            elif is_real:
                raise Unsupported("float floor-div/mod", node)
            elif isinstance(op, ast.FloorDiv):
                # python floor division; z3 div is euclidean: equal for y > 0
                outs.append(R(s2, Val(V.Int, z3.If(y > 0, x / y, -((-x) / (-y)) if False else z3.If(x % y == 0, x / y, x / y + z3.If(y < 0, 0, 0))))))
            else:
                outs.append(R(s2, Val(V.Int, z3.If(y > 0, x % y, -((-x) % (-y))))))
            return outs
        if isinstance(op, ast.Pow):
            if z3.is_int_value(z3.simplify(y)) and z3.is_int_value(z3.simplify(x)):
                return [R(st, V.mk_int(z3.simplify(x).as_long() ** z3.simplify(y).as_long()))]
            raise Unsupported("symbolic power", node)
        raise Unsupported("numeric op %s" % type(op).__name__, node)
    if isinstance(op, ast.Add):
        if isinstance(ta, (V._Str, V._Bytes)) and type(ta) is type(tb):
            return [R(st, Val(ta, z3.Concat(a.term, b.term)))]
        if isinstance(ta, V.List) and isinstance(tb, V.List) and ta.elem == tb.elem:
            return [R(st, list_concat(sx, a, b, st))]
        if isinstance(ta, (V._Str, V._Bytes)) or isinstance(tb, (V._Str, V._Bytes)):
            return [R(st, None, Exc("TypeError"))]
    if isinstance(op, ast.Mult) and isinstance(ta, (V._Str, V._Bytes)) and isinstance(tb, V._Int):
        c = z3.simplify(b.term)
        if z3.is_int_value(c) and c.as_long() <= 64:
            r = z3.StringVal("")
            for _ in range(c.as_long()):
                r = z3.Concat(r, a.term)
            return [R(st, Val(ta, r))]
    if isinstance(op, ast.BitAnd) and isinstance(ta, V.Set) and ta == tb:
        x = z3.Const(fresh_name("sa"), ta.elem.sort())
        newt = z3.Lambda([x], z3.And(z3.Select(a.term, x), z3.Select(b.term, x)))
        # bool(A & B)  <=>  some element lies in both
        return [R(st, Val(ta, newt, {"ne": z3.Exists([x], z3.And(z3.Select(a.term, x), z3.Select(b.term, x)))}))]
    if isinstance(op, ast.BitOr) and isinstance(ta, V.Set) and ta == tb:
        x = z3.Const(fresh_name("so"), ta.elem.sort())
        return [R(st, Val(ta, z3.Lambda([x], z3.Or(z3.Select(a.term, x), z3.Select(b.term, x))),
                      {"ne": z3.Or(sx.set_nonempty(a, st), sx.set_nonempty(b, st))}))]
    m = sx.reg.binop(sx, op, a, b, st, node)
    if m is not None:
        return m
    if not sx.spec_mode and all(t is None or isinstance(t, (V._Str, V._Bytes, V._Int, V._Real, V._Bool, V._None, V.Tuple, V.Opaque)) for t in (ta, tb)):
        # an operator combination on immutable values that is not modelled: a value without contract (or TypeError)
        from .sx import Unknown as _Unknown
        sx.uncontracted.append("operator %s on %r, %r (line %s)" % (type(op).__name__, ta, tb, getattr(node, "lineno", "?")))
        return [R(st, Conc(_Unknown("%s %s %s" % (ta, type(op).__name__, tb)))), R(st.fork(), None, Exc("TypeError"))]
    raise Unsupported("binary op %s on %r, %r" % (type(op).__name__, ta, tb), node)


def list_concat(sx, a, b, st):
    t = a.ty
    r = t.fresh(fresh_name("cat"))
    i = z3.Int(fresh_name("ci"))
    na, nb = t.n(a.term), t.n(b.term)
    st.assume(t.n(r.term) == na + nb)
    st.assume(z3.ForAll([i], z3.Implies(z3.And(i >= 0, i < na), t.at(r.term, i) == t.at(a.term, i))))
    st.assume(z3.ForAll([i], z3.Implies(z3.And(i >= 0, i < nb), t.at(r.term, na + i) == t.at(b.term, i))))
    return r


def norm_index(idx, n):
    return z3.If(idx >= 0, idx, n + idx)


def index(sx, c, k, st, node):
    """c[k] -> list of R"""
    k = sx.lift(k) if isinstance(k, Conc) and not isinstance(k.v, (tuple, dict)) else k
    if isinstance(c, Conc):
        cv = c.v
        if isinstance(cv, dict):
            kk = z3.simplify(k.term) if isinstance(k, Val) and k.term is not None else None
            if kk is not None and z3.is_string_value(kk):
                key = kk.as_string()
                if key in cv:
                    return [R(st, cv[key])]
                return [R(st, None, Exc("KeyError"))]
            raise Unsupported("symbolic key into concrete dict", node)
        if isinstance(cv, tuple):
            kk = z3.simplify(k.term)
            if z3.is_int_value(kk):
                i = kk.as_long()
                if -len(cv) <= i < len(cv):
                    return [R(st, cv[i])]
                return [R(st, None, Exc("IndexError"))]
            raise Unsupported("symbolic index into heterogeneous tuple", node)
        if hasattr(cv, "__pyvc_getitem__"):
            return cv.__pyvc_getitem__(sx, k, st, node)
        raise Unsupported("subscript of concrete %r" % (cv,), node)
    if isinstance(c, Ref):
        content = st.getcell(c.cell)
        if isinstance(content, dict):
            m = sx.reg.obj_getitem(sx, c, k, st, node)
            if m is not None:
                return m
            raise Unsupported("subscript of object %r" % (c.ty,), node)
        if isinstance(content, tuple):
            if content[0] == "emptydict":
                return [R(st, None, Exc("KeyError"))]
            return [R(st, None, Exc("IndexError"))]
        c = content
    t = c.ty
    if isinstance(t, V.List):
        if not isinstance(k.ty, (V._Int, V._Bool)):
            return [R(st, None, Exc("TypeError"))]
        n = t.n(c.term)
        idx = sx.num(k)
        inb = z3.simplify(z3.And(idx < n, idx >= -n))
        outs = []
        if not sx.spec_mode and not z3.is_true(inb) and sx.feasible(st, z3.Not(inb)):
            outs.append(R(st.fork().assume(z3.Not(inb)), None, Exc("IndexError")))
        if not sx.spec_mode:
            st.assume(inb)
        outs.append(R(st, Val(t.elem, t.at(c.term, idx if sx.spec_mode else z3.simplify(norm_index(idx, n))))))
        return outs
    if isinstance(t, V.Tuple):
        kk = z3.simplify(sx.num(k))
        if z3.is_int_value(kk):
            i = kk.as_long()
            if -len(t.items) <= i < len(t.items):
                i = i % len(t.items)
                return [R(st, Val(t.items[i], t.field(c.term, i)))]
            return [R(st, None, Exc("IndexError"))]
        raise Unsupported("symbolic index into fixed tuple", node)
    if isinstance(t, (V._Str, V._Bytes)):
        n = z3.Length(c.term)
        idx = sx.num(k)
        inb = z3.simplify(z3.And(idx < n, idx >= -n))
        outs = []
        if not sx.spec_mode and not z3.is_true(inb) and sx.feasible(st, z3.Not(inb)):
            outs.append(R(st.fork().assume(z3.Not(inb)), None, Exc("IndexError")))
        if not sx.spec_mode:
            st.assume(inb)
        ch = z3.SubString(c.term, norm_index(idx, n), 1)
        if isinstance(t, V._Bytes):
            outs.append(R(st, Val(V.Int, z3.StrToCode(ch))))
        else:
            outs.append(R(st, Val(V.Str, ch)))
        return outs
    if isinstance(t, V.Dict):
        if isinstance(k.ty, V.Opt) and k.ty.inner == t.k:
            # None is never a key of this dict
            outs0 = []
            isn = k.ty.is_none(k.term)
            if not sx.spec_mode and sx.feasible(st, isn):
                outs0.append(R(st.fork().assume(isn), None, Exc("KeyError")))
            if not sx.spec_mode:
                st.assume(z3.Not(isn))
            return outs0 + index(sx, c, Val(t.k, k.ty.get(k.term)), st, node)
        if k.ty != t.k:
            k = sx.coerce(k, t.k, st)
        has = z3.simplify(z3.Select(t.dom(c.term), k.term))
        outs = []
        if not sx.spec_mode and not z3.is_true(has) and sx.feasible(st, z3.Not(has)):
            outs.append(R(st.fork().assume(z3.Not(has)), None, Exc("KeyError")))
        if not sx.spec_mode:
            st.assume(has)
        outs.append(R(st, Val(t.v, z3.Select(t.map(c.term), k.term))))
        return outs
    if isinstance(t, V._Json):
        return json_index(sx, c, k, st, node)
    if isinstance(t, V.Map):
        kk = sx.coerce(k, t.k, st)
        return [R(st, Val(t.v, z3.Select(c.term, kk.term)))]
    if isinstance(t, V.Opt):
        outs = []
        isn = t.is_none(c.term)
        if not sx.spec_mode and sx.feasible(st, isn):
            outs.append(R(st.fork().assume(isn), None, Exc("TypeError")))
        st.assume(z3.Not(isn))
        outs.extend(index(sx, Val(t.inner, t.get(c.term)), k, st, node))
        return outs
    if isinstance(t, V._None):
        return [R(st, None, Exc("TypeError"))]
    raise Unsupported("subscript of %r" % (t,), node)


def slice_(sx, c, lo, hi, step, st, node):
    if step is not None:
        raise Unsupported("slice step", node)
    c = sx.deref(c, st)
    if isinstance(c, Conc) and isinstance(c.v, tuple):
        raise Unsupported("slice of concrete tuple", node)
    t = c.ty
    lo = sx.lift(lo) if isinstance(lo, Conc) else lo
    hi = sx.lift(hi) if isinstance(hi, Conc) else hi
    if isinstance(t, (V._Str, V._Bytes)):
        n = z3.Length(c.term)

        def clamp(v, dflt):
            if v is None or isinstance(v.ty, V._None):
                return dflt
            if isinstance(v.ty, V.Opaque):
                v = sx.coerce(v, V.Int, st)      # a bound without contract: some integer
            x = sx.num(v)
            x = z3.If(x < 0, x + n, x)
            return z3.If(x < 0, 0, z3.If(x > n, n, x))

        a = clamp(lo, z3.IntVal(0))
        b = clamp(hi, n)
        ln = z3.If(b > a, b - a, 0)
        return [R(st, Val(t, z3.simplify(z3.SubString(c.term, a, ln))))]
    if isinstance(t, V.List):
        n = t.n(c.term)

        def clamp(v, dflt):
            if v is None or isinstance(v.ty, V._None):
                return dflt
            x = sx.num(v)
            x = z3.If(x < 0, x + n, x)
            return z3.If(x < 0, 0, z3.If(x > n, n, x))

        a = clamp(lo, z3.IntVal(0))
        b = clamp(hi, n)
        r = t.fresh(fresh_name("slice"))
        i = z3.Int(fresh_name("si"))
        st.assume(t.n(r.term) == z3.If(b > a, b - a, 0))
        st.assume(z3.ForAll([i], z3.Implies(z3.And(i >= 0, i < t.n(r.term)), t.at(r.term, i) == t.at(c.term, a + i))))
        return [R(st, r)]
    if isinstance(t, V._Json):
        j = J()
        k = j["kind"](c.term)
        outs = []
        s1 = st.fork().assume(z3.Or(k == JLIST, k == JSTR))
        if sx.feasible(s1):
            r = fresh_json(sx, s1, "jslice")
            s1.assume(j["kind"](r.term) == k)
            # only the [a:] form is given structure (used for message[2:])
            if (hi is None) and lo is not None and z3.is_int_value(z3.simplify(lo.term)):
                a = z3.simplify(lo.term).as_long()
                n = j["len"](c.term)
                s1.assume(j["len"](r.term) == z3.If(n > a, n - a, 0))
                i = z3.Int(fresh_name("ji"))
                s1.assume(z3.ForAll([i], z3.Implies(z3.And(i >= 0, i < j["len"](r.term)), j["item"](r.term, i) == j["item"](c.term, i + a))))
            outs.append(R(s1, r))
        s2 = st.fork().assume(z3.Not(z3.Or(k == JLIST, k == JSTR)))
        if sx.feasible(s2):
            outs.append(R(s2, None, Exc("TypeError")))
        return outs
    raise Unsupported("slice of %r" % (t,), node)


def setitem(sx, c, k, val, st, node):
    """c[k] = val -> list of (state, Exc|None)"""
    if isinstance(c, Conc) and isinstance(c.v, dict):
        kk = z3.simplify(sx.lift(k).term) if isinstance(k, Conc) else z3.simplify(k.term)
        if z3.is_string_value(kk):
            c.v[kk.as_string()] = val  # NB: concrete dicts are shared; only used for fresh literals
            return [(st, None)]
        raise Unsupported("symbolic key store into concrete dict", node)
    if isinstance(c, Ref):
        content = st.getcell(c.cell)
        if isinstance(content, dict):
            m = sx.reg.obj_setitem(sx, c, k, val, st, node)
            if m is not None:
                return m
            raise Unsupported("item store on object %r" % (c.ty,), node)
        k = sx.lift(k) if isinstance(k, Conc) else k
        val = sx.deref(sx.lift(val) if isinstance(val, Conc) else val, st)
        if isinstance(content, tuple) and content[0] == "emptydict":
            t = V.Dict(k.ty, val.ty)
            content = Val(t, t.empty())
            c.ty = t
        t = content.ty
        if isinstance(t, V.Dict):
            val = sx.coerce(val, t.v, st)
            st.setcell(c.cell, Val(t, t.put(content.term, k.term, val.term)))
            return [(st, None)]
        if isinstance(t, V.List):
            n = t.n(content.term)
            idx = sx.num(k)
            inb = z3.And(idx < n, idx >= -n)
            outs = []
            if sx.feasible(st, z3.Not(inb)):
                outs.append((st.fork().assume(z3.Not(inb)), Exc("IndexError")))
            st.assume(inb)
            val = sx.coerce(val, t.elem, st)
            st.setcell(c.cell, Val(t, t.mk(z3.Store(t.arr(content.term), norm_index(idx, n), val.term), n)))
            outs.append((st, None))
            return outs
    if isinstance(c, Val) and isinstance(c.ty, V._Json):
        # obj["tags"] = tags on client JSON: handled by registry (ghost overlay)
        m = sx.reg.json_setitem(sx, c, k, val, st, node)
        if m is not None:
            return m
    from .sx import Unknown as _Unk2
    if isinstance(c, Conc) and isinstance(c.v, _Unk2) and not sx.spec_mode:
        # storing into an object nothing is known about (state a change added to a class): no modelled object is affected, the
        # store itself may fail
        sx.uncontracted.append("item store into %s (line %s)" % (c.v.why, getattr(node, "lineno", "?")))
        return [(st, None), (st.fork(), Exc("Exception", exact=False))]
    raise Unsupported("item store on %r" % (c,), node)


def delitem(sx, c, k, st, node):
    if isinstance(c, Ref):
        content = st.getcell(c.cell)
        if isinstance(content, dict):
            m = sx.reg.obj_delitem(sx, c, k, st, node)
            if m is not None:
                return m
        elif isinstance(content, Val) and isinstance(content.ty, V.Dict):
            t = content.ty
            if isinstance(k, Val) and isinstance(k.ty, V.Opt) and k.ty.inner == t.k:
                isn = k.ty.is_none(k.term)
                pre = []
                if sx.feasible(st, isn):
                    pre.append((st.fork().assume(isn), Exc("KeyError")))
                st.assume(z3.Not(isn))
                return pre + delitem(sx, c, Val(t.k, k.ty.get(k.term)), st, node)
            k = sx.coerce(k, t.k, st)
            has = z3.Select(t.dom(content.term), k.term)
            outs = []
            if sx.feasible(st, z3.Not(has)):
                outs.append((st.fork().assume(z3.Not(has)), Exc("KeyError")))
            st.assume(has)
            st.setcell(c.cell, Val(t, t.remove(content.term, k.term)))
            outs.append((st, None))
            return outs
    raise Unsupported("del item on %r" % (c,), node)


from .builtins2 import *  # noqa: E402,F401,F403
