"""
pyvc.native -- evaluate contract expressions natively (CPython) for replay: the same expression text that
was translated to SMT is evaluated on concrete values, with spec functions executed from their python source.
"""
import ast
import copy


class OldTransformer(ast.NodeTransformer):
    def visit_Call(self, node):
        self.generic_visit(node)
        if isinstance(node.func, ast.Name) and node.func.id == "old" and len(node.args) == 1:
            src = ast.unparse(node.args[0])
            return ast.copy_location(ast.Call(func=ast.Name(id="__old__", ctx=ast.Load()), args=[ast.Constant(src)], keywords=[]), node)
        return node


def make_env(reg, overrides=None):
    env = {}

    def all_range(lo, hi, f):
        return all(f(i) for i in range(lo, hi))

    def any_range(lo, hi, f):
        return any(f(i) for i in range(lo, hi))

    def implies(a, b):
        return (not a) or bool(b)

    def iff(a, b):
        return bool(a) == bool(b)

    env.update(all_range=all_range, any_range=any_range, implies=implies, iff=iff)
    for name, sf in reg.spec_funcs.items():
        try:
            exec(compile(sf.src, "<spec %s>" % name, "exec"), env)
        except Exception:
            pass
    if overrides:
        env.update(overrides)
    return env


def native_eval(reg, expr, post_env, pre_env, ghost=None, overrides=None):
    tree = ast.parse(expr.strip(), mode="eval")
    tree = OldTransformer().visit(tree)
    ast.fix_missing_locations(tree)
    env = make_env(reg, overrides)
    ghost = ghost or {}
    pre = dict(env)
    pre.update(pre_env)
    pre["ghost"] = lambda n: ghost.get("pre", {}).get(n)

    def __old__(src):
        return eval(compile(ast.parse(src, mode="eval"), "<old>", "eval"), pre)

    env.update(post_env)
    env["__old__"] = __old__
    env["ghost"] = lambda n: ghost.get("post", {}).get(n)
    return eval(compile(tree, "<contract>", "eval"), env)
