"""
pyvc.registry -- sidecar contract registry: units (functions under contract), declarative
contracts, trusted model functions, class/type declarations, spec functions, loop specs, holes.
"""
import ast
import hashlib
import os
import re
import z3

from . import vals as V
from .vals import Val, Ref, Func, Conc, NONE
from .sx import SX, State, R, Out, Exc, Unsupported, fresh_name, LoopSpec, Obligation

REPO = os.environ.get("PYVC_REPO", "/repo")

TYPE_ENV = {
    "Int": V.Int, "Real": V.Real, "Bool": V.Bool, "Str": V.Str, "Bytes": V.Bytes, "NoneT": V.NoneT, "Json": V.Json,
    "Map": V.Map, "Opt": V.Opt, "Tuple": V.Tuple, "List": V.List, "Set": V.Set, "Dict": V.Dict, "Opaque": V.Opaque,
}


class Contract:
    """declarative contract of a function under contract (also used at its call sites)"""

    def __init__(self, qual, params, requires=(), ensures=(), raises=None, modifies=(), returns=None,
                 exc_ensures=None, pure=False, trusted_ensures=()):
        self.qual = qual
        # postconditions ASSUMED at call sites but NOT checked in the callee (an induction the tool does not mechanise);
        # every one is listed in the evidence of the properties that use it
        self.trusted_ensures = list(trusted_ensures)
        self.params = params  # ordered dict name -> Ty | ('obj', cls)
        self.requires = list(requires)  # [(name, src)]
        self.ensures = list(ensures)  # [(name, src)]   over params, result, old()
        self.raises = raises or {}  # ExcClass -> condition src over entry state ("may raise only if")
        self.exc_ensures = exc_ensures or {}  # ExcClass -> [(name, src)] holds when that exception escapes
        self.modifies = list(modifies)
        self.returns = returns
        self.pure = pure


class Unit:
    """a real function in /repo put under contract"""

    variant = None

    def __init__(self, path, qual, contract, loops=None, props=(), setup=None, holes=None, yield_ensures=(),
                 canaries=(), iter_posts=None, path_hooks=None, ghost_init=None, notes="", hints=None, assumes=()):
        self.path = path
        self.qual = qual
        self.contract = contract
        self.loops = loops or {}
        self.props = list(props)
        self.setup = setup
        self.holes = holes or {}
        self.yield_ensures = list(yield_ensures)
        self.canaries = list(canaries)  # [(name, src)] deliberately false postconditions: must be refuted
        self.iter_posts = iter_posts or {}
        self.path_hooks = path_hooks
        self.ghost_init = ghost_init
        self.notes = notes
        self.hints = hints or {}
        self.assumes = list(assumes)
        self.reveal = ()
        self.ghost_params = ()
        self.obligation_props = []
        self.yield_type = None
        self.elem_classes = {}
        self.local_types = {}
        self.ghost_const = ()
        self.ghost_havoc = None
        self.stmt_hints = []  # [(source-prefix, {snapshot name: expr}, [lemma instance exprs])]
        self.src_info = None


def find_function(tree, qual):
    parts = qual.split(".")
    node = tree
    for p in parts:
        found = None
        for ch in ast.iter_child_nodes(node):
            if isinstance(ch, (ast.FunctionDef, ast.AsyncFunctionDef, ast.ClassDef)) and ch.name == p:
                found = ch
                break
        if found is None:
            # search nested inside function bodies (closures)
            for ch in ast.walk(node):
                if ch is not node and isinstance(ch, (ast.FunctionDef, ast.AsyncFunctionDef, ast.ClassDef)) and ch.name == p:
                    found = ch
                    break
        if found is None:
            return None
        node = found
    return node


_src_cache = {}


def load_source(path):
    full = path if os.path.isabs(path) else os.path.join(REPO, path)
    if full not in _src_cache:
        with open(full) as f:
            text = f.read()
        _src_cache[full] = (text, ast.parse(text))
    return _src_cache[full]


class Registry:
    def __init__(self):
        self.units = {}  # qual-key -> Unit
        self.contracts = {}  # name -> Contract   (by simple and qualified name)
        self.models = {}  # name -> python callable(sx, args, kwargs, st, node) -> [R]
        self.methods = {}  # (cls, attr) -> model callable (self first arg)
        self.classes = {}  # cls -> {attr: Ty | callable(sx, st)->Val}
        self.rec_props = {}  # (recname, attr) -> callable(sx, val, st, node) -> [R]
        self.spec_funcs = {}  # name -> SpecFunc
        self.globals = {}  # name -> Val | callable(sx, st) -> Val
        self.ctx_managers = []  # [(predicate(mgr), factory)]
        self.ufuns = {}
        self.cur_unit = None
        self.hole_log = []
        self.frames = {}  # callee name -> list of root expr strings it may mutate ([] = pure)
        self.ghost_loop_havoc = None
        self.hooks = {}
        self.lemmas = {}

    # ---------------- declarations
    def unit(self, u, variant=None):
        u.variant = variant
        self.units[u.path + "::" + u.qual + ("#" + variant if variant else "")] = u
        self.contracts[u.qual] = u.contract
        self.contracts[u.qual.split(".")[-1]] = u.contract
        return u

    def model(self, name, frame=()):
        def deco(f):
            self.models[name] = f
            self.frames[name] = list(frame) if frame is not None else None
            return f

        return deco

    def ufun(self, name, dom, rng):
        if name not in self.ufuns:
            self.ufuns[name] = z3.Function(name, *(list(dom) + [rng]))
        return self.ufuns[name]

    def parse_type(self, node):
        env = dict(TYPE_ENV)
        env.update(getattr(self, "named_types", {}))
        return eval(compile(ast.Expression(node), "<type>", "eval"), env)

    # ---------------- lookups used by SX
    def lookup_global(self, sx, name, st):
        from . import builtins2 as B2

        if name in self.spec_funcs:
            return self.spec_funcs[name].as_func(sx)
        if name in self.lemmas:
            return self.lemmas[name].as_func(sx)
        if name in self.globals:
            g = self.globals[name]
            return g(sx, st) if callable(g) and not isinstance(g, Val) else g
        if name in self.models:
            f = self.models[name]
            return Func(lambda sx2, a, k, s, n, f=f: f(sx2, a, k, s, n), "model:" + name)
        if name in self.contracts and "." not in name:
            c = self.contracts[name]
            return Func(lambda sx2, a, k, s, n, c=c: self.call_contract(sx2, c, None, a, k, s, n), "contract:" + name)
        b = B2.builtin(name)
        if b is not None:
            return b
        return self.module_global(sx, name, st)

    def module_global(self, sx, name, st):
        """a name assigned once at module level of the unit's file to a constant expression
        (literals, tuples of literals, re.compile(literal)): evaluated on demand"""
        u = self.cur_unit
        if u is None:
            return None
        key = (u.path, name)
        cache = self.__dict__.setdefault("_modglobals", {})
        if key in cache:
            return cache[key]
        text, tree = load_source(u.path)
        found = None
        for node in tree.body:
            if isinstance(node, (ast.FunctionDef, ast.AsyncFunctionDef)) and node.name == name:
                # a module-level helper without a contract of its own: verified as part of its callers by inlining
                fdef = node
                is_gen = any(isinstance(n, (ast.Yield, ast.YieldFrom)) for n in ast.walk(fdef))
                if is_gen:
                    return None

                def call(sx2, args, kwargs, st2, callnode, fdef=fdef):
                    return sx2.inline_call(fdef, args, kwargs, st2, 0, callnode)

                return Func(call, "inlined:%s" % name)
        for node in tree.body:
            if isinstance(node, ast.Assign) and len(node.targets) == 1 and isinstance(node.targets[0], ast.Name) and node.targets[0].id == name:
                found = node.value if found is None else "multiple"
        if found is None or found == "multiple":
            return None
        tmp = State()
        sx.spec_mode += 1
        try:
            v = sx.ev1(found, tmp)
        except Unsupported:
            return None
        finally:
            sx.spec_mode -= 1
        if tmp.pc or isinstance(v, Ref):
            return None
        cache[key] = v
        return v

    def method(self, *a, **k):  # overloaded: declaration (2 str args) or lookup (sx, obj, attr, st)
        if len(a) >= 2 and isinstance(a[0], str):
            return Registry._decl_method(self, *a, **k)
        return self._lookup_method(*a)

    def _decl_method(self, cls, attr, frame=()):
        def deco(f):
            self.methods[(cls, attr)] = f
            self.frames[attr] = list(frame) if frame is not None else None
            return f

        return deco

    def _lookup_method(self, sx, obj, attr, st):
        cls = obj.ty.cls if isinstance(obj.ty, V.ObjT) else None
        for c in self.mro(cls):
            if (c, attr) in self.methods:
                f = self.methods[(c, attr)]
                return Func(lambda sx2, a, k, s, n, f=f: f(sx2, [obj] + list(a), k, s, n), "method:%s.%s" % (c, attr))
            q = "%s.%s" % (c, attr)
            if q in self.contracts:
                con = self.contracts[q]
                return Func(lambda sx2, a, k, s, n, con=con: self.call_contract(sx2, con, obj, a, k, s, n), "contract:" + q)
        return None

    def mro(self, cls):
        out = []
        while cls is not None:
            out.append(cls)
            cls = self.classes.get(cls, {}).get("__base__")
        return out

    def rec_attr(self, sx, obj, attr, st, node):
        f = self.rec_props.get((obj.ty.rname, attr))
        if f is None:
            return None
        return f(sx, obj, st, node)

    def rec_bases(self, rname):
        return self.classes.get(rname, {}).get("__bases__", ())

    def class_names(self, cls):
        if isinstance(cls, Func) and cls.label.startswith("builtin:"):
            return [cls.label[8:]]
        if isinstance(cls, Func) and cls.label.startswith("model:"):
            return [cls.label[6:]]   # a class whose constructor is a model function
        if isinstance(cls, Conc) and hasattr(cls.v, "__pyvc_classname__"):
            return [cls.v.__pyvc_classname__]
        from .sx import Unknown, EXC_PARENT
        if isinstance(cls, Conc) and isinstance(cls.v, Unknown) and cls.v.why in EXC_PARENT:
            return [cls.v.why]   # an exception class imported by the module
        if isinstance(cls, Conc):
            v = cls.v
            if isinstance(v, tuple):
                out = []
                for x in v:
                    out += self.class_names(x)
                return out
            if isinstance(v, Exc) or (isinstance(v, str)):
                return [v if isinstance(v, str) else v.cls]
            if isinstance(v, str):
                return [v]
            if isinstance(v, type):
                return [v.__name__]
        raise Unsupported("isinstance class %r" % (cls,))

    def ref_isinstance(self, ref, name, st):
        cls = ref.ty.cls if isinstance(ref.ty, V.ObjT) else None
        if cls is None:
            return {V.List: "list", V.Set: "set", V.Dict: "dict"}.get(type(ref.ty)) == name
        return name in self.mro(cls)

    def context_manager(self, sx, mgr, st, node):
        for pred, factory in self.ctx_managers:
            if pred(mgr, st):
                return factory(mgr)
        from .sx import Unknown
        if isinstance(mgr, Conc) and isinstance(mgr.v, Unknown) and not sx.spec_mode:
            return UnknownCM(mgr.v)
        raise Unsupported("no context-manager contract for %r (%s)" % (mgr, ast.unparse(node)), node)

    def bound_at_module_level(self, sx, name):
        """is `name` imported / defined / assigned at the top level of the unit's source file?"""
        u = self.cur_unit
        if u is None:
            return False
        text, tree = load_source(u.path)
        for node in tree.body:
            if isinstance(node, (ast.Import, ast.ImportFrom)):
                for a in node.names:
                    if (a.asname or a.name.split(".")[0]) == name:
                        return True
            elif isinstance(node, (ast.FunctionDef, ast.AsyncFunctionDef, ast.ClassDef)) and node.name == name:
                return True
            elif isinstance(node, ast.Assign):
                for t in node.targets:
                    if isinstance(t, ast.Name) and t.id == name:
                        return True
            elif isinstance(node, ast.Try):
                for sub in ast.walk(node):
                    if isinstance(sub, (ast.Import, ast.ImportFrom)):
                        for a in sub.names:
                            if (a.asname or a.name.split(".")[0]) == name:
                                return True
        return False

    def own_class_method(self, sx, obj, attr, st):
        """`self.helper(...)` where helper is a method of the unit's own class that has no contract: verified as part of its
        caller by inlining its body (like module-level helpers)"""
        u = self.cur_unit
        if u is None or "." not in u.qual:
            return None
        selfv = (getattr(sx, "entry_params", None) or {}).get("self")
        if not (isinstance(selfv, Ref) and isinstance(obj, Ref) and selfv.cell == obj.cell):
            return None
        cls = u.qual.split(".")[0]
        text, tree = load_source(u.path)
        for node in tree.body:
            if isinstance(node, ast.ClassDef) and node.name == cls:
                for f in node.body:
                    if isinstance(f, (ast.FunctionDef, ast.AsyncFunctionDef)) and f.name == attr:
                        if any(isinstance(n, (ast.Yield, ast.YieldFrom)) for n in ast.walk(f)):
                            return None
                        if any(isinstance(d, ast.Name) and d.id in ("staticmethod", "classmethod", "property") for d in f.decorator_list):
                            return None

                        def call(sx2, args, kwargs, st2, callnode, fdef=f, obj=obj):
                            return sx2.inline_call(fdef, [obj] + list(args), kwargs, st2, 0, callnode)

                        return Func(call, "inlined-method:%s.%s" % (cls, attr))
        return None

    def havoc_ghost_for_unknown_call(self, sx, st):
        # an uncontracted callee may have done anything the ghost state records: every integer / boolean ghost becomes arbitrary
        for g, v in list(st.ghost.items()):
            if g.startswith("__"):
                continue
            if isinstance(v, Val) and not isinstance(v, (Ref, Func, Conc)) and v.ty is not None and v.term is not None:
                st.ghost[g] = sx.fresh(v.ty, "g_" + g, st)

    def frame_of_call(self, sx, callnode, fname):
        """roots (expression strings) a call may mutate; None = unknown (havoc everything)"""
        if fname in self.frames:
            fr = self.frames[fname]
            if fr is None:
                return None
            roots = []
            for r in fr:
                if r.startswith("arg"):
                    i = int(r[3:])
                    if i < len(callnode.args):
                        roots.append(ast.unparse(callnode.args[i]))
                elif r == "self" and isinstance(callnode.func, ast.Attribute):
                    roots.append(ast.unparse(callnode.func.value))
                else:
                    roots.append(r)
            return roots
        c = self.contracts.get(fname)
        if c is not None:
            roots = []
            params = list(c.params)
            offs = 1 if params and params[0] == "self" else 0
            for m in c.modifies:
                root = m.split(".")[0]
                if root == "self" and isinstance(callnode.func, ast.Attribute):
                    roots.append(ast.unparse(callnode.func.value) + m[4:])
                elif root in params:
                    i = params.index(root) - offs
                    if 0 <= i < len(callnode.args):
                        roots.append(ast.unparse(callnode.args[i]))
            return roots
        from . import builtins2 as B2

        if fname in B2.BUILTIN_FUNCS or fname in B2.SPECIAL_FORMS or fname in self.spec_funcs:
            return []
        if fname in PURE_METHODS:
            return []
        if fname in LOG_METHODS:
            return []
        from .sx import EXC_PARENT
        if isinstance(callnode.func, ast.Name) and (fname in EXC_PARENT or fname in ("Exception", "BaseException")):
            return []   # constructing an exception object mutates nothing
        return None

    def havoc_ghost_for_loop(self, sx, body, st):
        """ghost state at a loop head: everything is havocked except what the unit declares loop-constant
        (unit.ghost_const) -- invariants must carry whatever is needed"""
        u = self.cur_unit
        const = set(getattr(u, "ghost_const", ()) or ())
        hook = getattr(u, "ghost_havoc", None)
        if hook is not None:
            return hook(sx, body, st)
        for g, v in list(st.ghost.items()):
            if g.startswith("__") or g in const or not isinstance(v, Val) or isinstance(v, (Ref, Func, Conc)) or v.term is None:
                continue
            st.ghost[g] = sx.fresh(v.ty, "g_" + g, st)

    def loop_spec(self, sx, stmt, ordinal):
        u = self.cur_unit
        spec = None
        if u is not None:
            # keyed by ordinal and (optionally) by a fingerprint of the loop header
            hdr = ast.unparse(stmt.iter) if isinstance(stmt, (ast.For, ast.AsyncFor)) else ast.unparse(stmt.test)
            for key, sp in u.loops.items():
                if isinstance(key, str) and key == hdr:
                    spec = sp
            if spec is None:
                spec = u.loops.get(ordinal)
        if spec is None:
            spec = LoopSpec(str(ordinal))
        return spec

    def iteration_end(self, sx, spec, out, head_ghost, stmt):
        for (name, src) in spec.iter_post:
            extra = {"_exit": V.mk_str(out.kind)}
            for g, v in head_ghost.items():
                if g.startswith("__local_"):
                    extra["head_" + g[8:]] = v
                elif isinstance(v, Val) and not g.startswith("__"):
                    extra["head_" + g] = v
            c = sx.eval_spec(src, out.st, extra)
            sx.oblige(out.st, "%s/loop%s/iter:%s" % (sx.cur_func, spec.label, name), c, "iteration-post", stmt)

    # ---------------- holes (string-building sites)
    def hole(self, sx, fnode, vnode, text_val, raw_val, st, label=None):
        if sx.spec_mode:
            return
        sx.hole_ordinal += 1
        u = self.cur_unit
        if u is None or not u.holes:
            return
        src = label or (ast.unparse(vnode.value) if vnode is not None else "?")
        req = None
        for key, r in u.holes.items():
            if key == src or key == sx.hole_ordinal:
                req = r
        if req is None:
            if u.holes.get("__strict__"):
                sx.oblige(st, "%s/hole:%s:unclassified" % (sx.cur_func, src), z3.BoolVal(False), "hole", fnode,
                          note="string hole without a declared class")
            return
        name, regex = req
        sx.oblige(st, "%s/hole:%s:%s" % (sx.cur_func, src, name), z3.InRe(text_val.term, regex), "hole", fnode)

    # ---------------- string/number models shared by many contracts
    def int_to_str(self, x):
        f = self.ufun("int_to_str", [z3.IntSort()], z3.StringSort())
        return f(x)

    def str_to_int(self, s):
        return self.ufun("str_to_int", [z3.StringSort()], z3.IntSort())(s)

    def str_is_int(self, s):
        return self.ufun("str_is_int", [z3.StringSort()], z3.BoolSort())(s)

    def int_str_facts(self, x):
        """facts about str(int): decimal, optional '-'"""
        s = self.int_to_str(x)
        digits = z3.Plus(z3.Range("0", "9"))
        return [z3.InRe(s, z3.Concat(z3.Option(z3.Re("-")), digits)), self.str_to_int(s) == x, self.str_is_int(s),
                z3.Implies(x >= 0, z3.And(z3.InRe(s, digits), z3.StrToInt(s) == x))]

    def replace_facts(self, s, a, b, r):
        return []

    def bytes_hex(self, sx, s, st):
        f = self.ufun("bytes_hex", [z3.StringSort()], z3.StringSort())
        r = f(s)
        st.assume(z3.Length(r) == 2 * z3.Length(s))
        st.assume(z3.InRe(r, z3.Star(z3.Union(z3.Range("0", "9"), z3.Range("a", "f")))))
        return r

    def utf8(self, sx, s, st):
        f = self.ufun("utf8", [z3.StringSort()], z3.StringSort())
        r = f(s)
        st.assume(z3.Length(r) >= z3.Length(s))
        st.assume((z3.Length(r) == 0) == (z3.Length(s) == 0))
        return r

    def be_bytes(self, sx, x, n, st):
        f = self.ufun("be%d" % n, [z3.IntSort()], z3.StringSort())
        r = f(x)
        st.assume(z3.Length(r) == n)
        return r

    def bit_length(self, sx, x, st):
        f = self.ufun("bit_length", [z3.IntSort()], z3.IntSort())
        r = f(x)
        st.assume(r >= 0)
        st.assume((r == 0) == (x == 0))
        return r

    def repr_model(self, sx, v, st, node):
        r = sx.fresh(V.Str, "repr", st)
        return [R(st, r)]

    # hooks with no default model
    def _none(self, *a, **k):
        return None

    def _obj_hook(kind):
        def f(self, sx, obj, *rest):
            cls = obj.ty.cls if isinstance(obj.ty, V.ObjT) else None
            for c in self.mro(cls):
                h = self.hooks.get((kind, c))
                if h is not None:
                    return h(sx, obj, *rest)
            return None

        return f

    obj_contains = _obj_hook("contains")
    obj_getitem = _obj_hook("getitem")
    obj_setitem = _obj_hook("setitem")
    obj_delitem = _obj_hook("delitem")
    obj_len = _obj_hook("len")
    obj_iter = _obj_hook("iter")

    def hook(self, kind, cls):
        def deco(f):
            self.hooks[(kind, cls)] = f
            return f

        return deco
    json_setitem = json_method = set_len = set_iter = set_of_json = sorted_model = sort_model = _none
    str_of = bytes_of = getattr_dynamic = binop = comprehension_over = star_call = _none

    def value_method(self, sx, obj, attr, args, kwargs, st, node):
        t = getattr(obj, "ty", None)
        if isinstance(t, V.Rec):
            h = self.hooks.get(("method", t.rname))
            if h is not None:
                return h(sx, obj, attr, args, kwargs, st, node)
        if t is not None:
            h = self.hooks.get(("method", repr(t)))
            if h is not None:
                return h(sx, obj, attr, args, kwargs, st, node)
        return None
    join_model = split_model = format_model = json_iter = _none

    def call_value(self, sx, f, args, kwargs, st, node):
        h = self.hooks.get(("call", repr(getattr(f, "ty", None))))
        return h(sx, f, args, kwargs, st, node) if h else None

    def comprehension_partiality(self, sx, node, src, i, st):
        pass

    def note_comprehension(self, *a):
        pass

    # ---------------- calling a declarative contract
    def call_contract(self, sx, con, selfobj, args, kwargs, st, node):
        """assert pre; havoc frame; assume post / fork exceptional edges"""
        params = list(con.params)
        vals = {}
        argi = 0
        for p in params:
            if p == "self":
                vals[p] = selfobj
                continue
            if argi < len(args):
                vals[p] = args[argi]
                argi += 1
            elif p in kwargs:
                vals[p] = kwargs[p]
            elif p in getattr(con, "defaults", {}):
                vals[p] = con.defaults[p]
            elif p in getattr(con, "ghost_params", ()):
                # ghost parameters are threaded by name: the caller's own arbitrary witness if it has one
                cur = None
                for fr in reversed(st.frames):
                    if p in fr:
                        cur = fr[p]
                        break
                if cur is not None and isinstance(cur, Val) and getattr(cur, "ty", None) == con.params[p]:
                    vals[p] = cur
                else:
                    vals[p] = sx.fresh(con.params[p], "ghost_" + p, st)
            else:
                raise Unsupported("missing argument %s for contract %s" % (p, con.qual), node)
        # coerce argument shapes
        for p, ty in con.params.items():
            if isinstance(ty, V.Ty) and not isinstance(ty, V.ObjT) and isinstance(vals[p], Val) and not isinstance(vals[p], (Ref, Func)):
                v = vals[p]
                if isinstance(v, Conc):
                    v = sx.lift(v)
                if v.ty != ty:
                    vals[p] = sx.coerce(v, ty, st)
        caller = sx.cur_func
        for (name, src) in con.requires:
            c = sx.eval_spec(src, st, vals)
            sx.oblige(st, "%s/call:%s/pre:%s" % (caller, con.qual, name), c, "call-pre", node)
        outs = []
        entry = st.fork()
        entry.frames.append(dict(vals))
        # exceptional edges
        for ecls, cond_src in con.raises.items():
            c = z3.BoolVal(True) if cond_src is True else sx.eval_spec(cond_src, st, vals)
            s2 = st.fork().assume(c)
            if not z3.is_false(z3.simplify(c)) and sx.feasible(s2):
                self.havoc_frame(sx, con, vals, s2)
                saved2 = s2.ghost.get("__entry__")
                s2.ghost["__entry__"] = Conc(entry)
                for (n2, src) in con.exc_ensures.get(ecls, []):
                    s2.assume(sx.eval_spec(src, s2, vals))
                if saved2 is None:
                    s2.ghost.pop("__entry__", None)
                else:
                    s2.ghost["__entry__"] = saved2
                outs.append(R(s2, None, Exc(ecls.rstrip("+"), exact=not ecls.endswith("+"))))
        # normal edge
        self.havoc_frame(sx, con, vals, st)
        res = NONE
        if con.returns is not None:
            res = sx.fresh(con.returns, "ret_" + con.qual.split(".")[-1], st)
        ex = dict(vals)
        ex["result"] = res
        saved = st.ghost.get("__entry__")
        st.ghost["__entry__"] = Conc(entry)
        for (name, src) in list(con.ensures) + list(getattr(con, "trusted_ensures", ())):
            st.assume(sx.eval_spec(src, st, ex))
        if saved is None:
            st.ghost.pop("__entry__", None)
        else:
            st.ghost["__entry__"] = saved
        if sx.feasible(st):
            outs.append(R(st, res))
        return outs

    def havoc_frame(self, sx, con, vals, st):
        for m in con.modifies:
            parts = m.split(".")
            v = vals.get(parts[0])
            if v is None:
                if parts[0] == "ghost":
                    g = parts[1]
                    if g in st.ghost and isinstance(st.ghost[g], Val):
                        st.ghost[g] = sx.fresh(st.ghost[g].ty, "g_" + g, st)
                continue
            for a in parts[1:]:
                v = st.getcell(v.cell)[a]
            if isinstance(v, Ref):
                sx.havoc_cell(v.cell, st)


class UnknownCM:
    """`with <value without contract>:` -- entering and leaving may do anything; leaving may also swallow the body's exception"""

    def __init__(self, u):
        self.u = u

    def enter(self, sx, st, node):
        return self.u.__pyvc_call__(sx, [], {}, st, node)

    def exit(self, sx, st, exc, node):
        from .sx import Exc as _Exc
        outs = []
        for r in self.u.__pyvc_call__(sx, [], {}, st, node):
            if r.exc is not None:
                outs.append(r)
            elif exc is not None:
                outs.append(R(r.st, False))            # propagates
                outs.append(R(r.st.fork(), True))      # ... or is suppressed
            else:
                outs.append(R(r.st, False))
        return outs


PURE_METHODS = {
    "lower", "upper", "startswith", "endswith", "hex", "encode", "decode", "replace", "strip", "isalnum", "join", "split",
    "format", "get", "items", "keys", "values", "to_bytes", "bit_length", "intersection", "union", "fromhex", "has_tag",
    "verify", "from_bytes", "translate", "first", "fetchone", "isoformat", "time", "perf_counter", "key",
    "model_validate", "match", "fullmatch", "search", "compile", "isdigit", "isalpha", "hexdigest", "digest", "count", "index", "find",
}
LOG_METHODS = {"debug", "info", "warning", "error", "exception", "critical", "log", "getLogger"}


class SpecFunc:
    """pure spec function defined by python source, translated to a z3 (recursive) function"""

    def __init__(self, reg, name, params, ret, src, recursive=False, opaque=False):
        self.opaque = opaque
        self.uf = None
        self.reg = reg
        self.name = name
        self.params = params  # [(name, Ty)]
        self.ret = ret
        self.src = src
        self.recursive = recursive
        self.z3f = None
        self._defining = False

    def define(self, sx):
        if self.z3f is not None:
            return
        dom = [t.sort() for _, t in self.params]
        if self.recursive:
            self.z3f = z3.RecFunction("spec_" + self.name, *(dom + [self.ret.sort()]))
        tree = ast.parse(self.src)
        fdef = tree.body[0]
        formals = [t.fresh("sp_%s_%s" % (self.name, n)) for n, t in self.params]
        st = State()
        st.env.update({n: f for (n, _), f in zip(self.params, formals)})
        sx.spec_mode += 1
        try:
            outs = sx.ex_block(fdef.body, st)
        finally:
            sx.spec_mode -= 1
        body = None
        rets = [o for o in outs if o.kind == "return"]
        if len(rets) != len(outs):
            raise Unsupported("spec function %s has a non-returning path" % self.name)
        for o in reversed(rets):
            v = sx.coerce(o.val, self.ret, o.st)
            cond = z3.And(*o.st.pc) if o.st.pc else z3.BoolVal(True)
            body = v.term if body is None else z3.If(cond, v.term, body)
        if self.recursive:
            z3.RecAddDefinition(self.z3f, [f.term for f in formals], body)
        else:
            self.body = (formals, body)
            self.z3f = "inline"

    def as_func(self, sx):
        def call(sx2, args, kwargs, st, node):
            args = [sx2.deref(sx2.lift(a) if isinstance(a, Conc) else a, st) for a in args]
            terms = [sx2.coerce(a, t, st).term for a, (_, t) in zip(args, self.params)]
            reveal = getattr(sx2.unit, "reveal", ()) if sx2.unit is not None else ("*",)
            if self.opaque and self.name not in reveal and "*" not in reveal:
                # hidden definition: callers reason about it as an uninterpreted function (opaque/reveal)
                if self.uf is None:
                    self.uf = z3.Function("spec_" + self.name, *([t.sort() for _, t in self.params] + [self.ret.sort()]))
                return [R(st, Val(self.ret, self.uf(*terms)))]
            self.define(sx2)
            if self.recursive:
                return [R(st, Val(self.ret, self.z3f(*terms)))]
            formals, body = self.body
            return [R(st, Val(self.ret, z3.substitute(body, *[(f.term, t) for f, t in zip(formals, terms)])))]

        return Func(call, "spec:" + self.name)


class Lemma:
    """
    forall vars. hyp -> concl, proved by induction on the Int variable `induct` starting at `base`:
       base:  hyp[induct:=base] -> concl[induct:=base]
       step:  induct >= base and (hyp -> concl) and hyp[induct+1] -> concl[induct+1]
    A lemma is *used* only by explicit instantiation (unit.hints: "name(arg, ...)"), never as a
    quantified assumption; its two proof obligations belong to the evidence of the properties in `props`.
    """

    def __init__(self, name, vars, hyp, concl, induct=None, base=None, props=()):
        # induct=None: a direct lemma (hyp -> concl proved with all definitions revealed, no induction)
        self.name = name
        self.vars = vars
        self.hyp = hyp
        self.concl = concl
        self.induct = induct
        self.base = base
        self.props = list(props)

    def instantiate(self, sx, st, vals):
        st.frames.append(dict(vals))
        try:
            h = sx.eval_spec(self.hyp, st)
            c = sx.eval_spec(self.concl, st)
        finally:
            st.frames.pop()
        return h, c

    def as_func(self, sx):
        def call(sx2, args, kwargs, st, node):
            vals = {}
            for (n, t), a in zip(self.vars, args):
                a = sx2.deref(sx2.lift(a) if isinstance(a, Conc) else a, st)
                vals[n] = sx2.coerce(a, t, st)
            h, c = self.instantiate(sx2, st, vals)
            return [R(st, Val(V.Bool, z3.Implies(h, c)))]

        return Func(call, "lemma:" + self.name)

    def proof_obligations(self, sx):
        st = State()
        consts = {n: t.fresh(fresh_name("lv_" + n)) for n, t in self.vars}
        for n, t in self.vars:
            for w in t.wellformed(consts[n].term):
                st.assume(w)
        if self.induct is None:
            h, c = self.instantiate(sx, st, consts)
            return [Obligation("lemma:%s/direct" % self.name, "lemma", list(st.pc) + [h], c, None, props=self.props)]
        j = consts[self.induct]
        st.frames.append(dict(consts))
        basev = sx.ev1(ast.parse(self.base, mode="eval").body, st)
        st.frames.pop()
        obs = []
        vb = dict(consts)
        vb[self.induct] = basev
        h0, c0 = self.instantiate(sx, st, vb)
        obs.append(Obligation("lemma:%s/base" % self.name, "lemma", list(st.pc) + [h0], c0, None, props=self.props))
        hj, cj = self.instantiate(sx, st, consts)
        v1 = dict(consts)
        v1[self.induct] = Val(V.Int, j.term + 1)
        h1, c1 = self.instantiate(sx, st, v1)
        obs.append(Obligation("lemma:%s/step" % self.name, "lemma",
                              list(st.pc) + [j.term >= basev.term, z3.Implies(hj, cj), h1], c1, None, props=self.props))
        return obs
