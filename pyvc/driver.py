"""
pyvc.driver -- `./check <PROPERTY> [--tier quick|thorough] [--replay FILE]`

Exit codes: 0 held / 1 VIOLATION (refuted obligation not covered by a listed known finding) /
            2 UNDECIDED (front-end error or solver unknown) / 3 checker crash or vacuity guard.
"""
import argparse
import concurrent.futures as cf
import importlib
import json
import multiprocessing as mp
import os
import sys
import time
import traceback

ROOT = os.path.dirname(os.path.dirname(os.path.abspath(__file__)))
sys.path.insert(0, ROOT)


def load_index():
    return importlib.import_module("contracts.index")


def _worker(job):
    from pyvc import verify

    return verify.run_unit(**job)


def group_by_name(obls):
    g = {}
    for o in obls:
        g.setdefault(o["name"], []).append(o)
    return g


def agg_status(insts):
    sts = [i["status"] for i in insts]
    if any(s == "refuted" for s in sts):
        return "refuted"
    if any(s == "disagree" for s in sts):
        return "disagree"
    if any(s != "discharged" for s in sts):
        return "unknown"
    return "discharged"


def _claim_text(prop):
    try:
        from contracts.manifest_info import CLAIMED
        c = CLAIMED.get(prop, {})
        return (c.get("text", "") + "  NOTE: " + c.get("note", "")).strip()
    except Exception:  # noqa
        return ""


def _model_scan(reg):
    out = []
    for name, f in sorted(reg.models.items()):
        doc = (getattr(f, "__doc__", None) or "").strip().splitlines()
        out.append("%s%s" % (name, (": " + doc[0][:140]) if doc else ""))
    for (cls, attr), f in sorted(reg.methods.items(), key=lambda kv: (str(kv[0][0]), kv[0][1])):
        doc = (getattr(f, "__doc__", None) or "").strip().splitlines()
        out.append("%s.%s%s" % (cls, attr, (": " + doc[0][:140]) if doc else ""))
    return out


def main(argv=None):
    ap = argparse.ArgumentParser()
    ap.add_argument("prop")
    ap.add_argument("--tier", default=os.environ.get("VERIF_TIER", "quick"))
    ap.add_argument("--replay")
    ap.add_argument("--write-baseline", action="store_true")
    ap.add_argument("--jobs", type=int, default=int(os.environ.get("PYVC_JOBS", "16")))
    ap.add_argument("-v", action="store_true")
    a = ap.parse_args(argv)
    seed = int(os.environ.get("VERIF_SEED", "0") or 0)
    try:
        import z3

        z3.set_param("smt.random_seed", seed % 1000)
    except Exception:
        pass
    t0 = time.time()
    prop = a.prop
    try:
        idx = load_index()
    except Exception:
        traceback.print_exc()
        print("CHECKER-ERROR: cannot load sidecar contracts")
        return 3
    if a.replay:
        return idx.replay(prop, a.replay)
    info = idx.PROPERTIES.get(prop)
    if info is None:
        print("property %s is not claimed (see MANIFEST.json not_applicable)" % prop)
        return 3
    reg = idx.REG
    mods = idx.MODULES
    findings = [f for f in idx.KNOWN_FINDINGS if f["property"] == prop and f.get("status", "open") == "open"]
    unit_keys = [k for k, u in reg.units.items() if prop in u.props]
    lemma_keys = ["lemma::" + n for n, l in reg.lemmas.items() if prop in l.props]
    jobs = []
    for k in unit_keys:
        fs = [f for f in findings if f.get("unit") == k]
        whens = [f["when"] for f in fs if f.get("when")]
        tol = [p for f in fs if not f.get("when") for p in f.get("obligations", [])]
        jobs.append({"unit_key": k, "sidecar_modules": mods, "tier": a.tier, "pass_name": "main", "assume_not": whens, "assume": None, "only_prop": prop, "tolerate": tol})
        for f in fs:
            if f.get("when"):
                jobs.append({"unit_key": k, "sidecar_modules": mods, "tier": a.tier, "pass_name": "finding:" + f["id"],
                             "assume_not": [], "assume": f["when"], "only_prop": prop, "tolerate": list(f.get("obligations", []))})
    for k in lemma_keys:
        jobs.append({"unit_key": k, "sidecar_modules": mods, "tier": a.tier, "pass_name": "main", "assume_not": [], "assume": None})
    reports = []
    ctx = mp.get_context("fork")
    with cf.ProcessPoolExecutor(max_workers=max(1, min(a.jobs, len(jobs) or 1)), mp_context=ctx) as ex:
        futs = {ex.submit(_worker, j): j for j in jobs}
        for fu in cf.as_completed(futs):
            j = futs[fu]
            try:
                rep = fu.result()
            except Exception as e:  # noqa
                rep = {"unit": j["unit_key"], "obligations": [], "error": {"kind": "crash", "msg": "worker died: %r" % e}, "wall_s": 0}
            rep["pass_name"] = j["pass_name"]
            reports.append(rep)
    reports.sort(key=lambda r: (r["unit"], r["pass_name"]))

    # bounded stand-ins and other property-specific extra checks (python callables returning dicts)
    extras = []
    for fn in info.get("extra_checks", []):
        try:
            extras.append(fn(a.tier, seed))
        except Exception:
            extras.append({"name": getattr(fn, "__name__", "extra"), "status": "crash", "detail": traceback.format_exc()[-1500:]})

    # baseline ledger (committed): obligation status and source hash of every unit on the pinned/repaired tree
    bl_path = os.path.join(ROOT, "baseline_obligations.json")
    baseline = json.load(open(bl_path)) if os.path.exists(bl_path) else {}
    bl_prop = baseline.get(prop, {})
    bl_obl = bl_prop.get("obligations", {})
    bl_sha = bl_prop.get("unit_sha", {})

    # ------------------------------------------------------------------ verdict
    violations = []  # (obligation name, unit, instances, pass)
    undecided = []
    crashes = []
    known_lines = []
    n_obl = n_dis = 0
    solver_s = 0.0
    fuc = []
    samples = []
    backends = {}
    canary_fail = []
    for rep in reports:
        if rep.get("src") and rep["pass_name"] == "main":
            fuc.append(rep["src"])
        if rep["error"]:
            (undecided if rep["error"]["kind"] == "unsupported" else crashes).append((rep["unit"], rep["pass_name"], rep["error"]))
            continue
        for cv in rep.get("covers", []):
            if cv.get("result") == "unsat" and rep["pass_name"] == "main":
                crashes.append((rep["unit"], rep["pass_name"], {"kind": "vacuous", "msg": "precondition of %s is unsatisfiable (vacuous contract)" % rep["unit"]}))
        g = group_by_name(rep["obligations"])
        fid = rep["pass_name"][8:] if rep["pass_name"].startswith("finding:") else None
        f = next((x for x in findings if x["id"] == fid), None) if fid else None
        for name, insts in g.items():
            st = agg_status(insts)
            solver_s += sum(i["seconds"] for i in insts)
            if insts[0]["kind"] == "canary":
                if rep["pass_name"] == "main" and st != "refuted":
                    canary_fail.append(name)
                continue
            tolerated = f is not None and any(p in name for p in f.get("obligations", []))
            if rep["pass_name"] == "main":
                # findings without an input class: the named obligation (statement-level) is the finding itself
                for f0 in findings:
                    if f0.get("unit") == rep["unit"] and not f0.get("when") and any(p in name for p in f0.get("obligations", [])):
                        tolerated = True
            if tolerated:
                continue
            n_obl += 1
            if st == "discharged":
                n_dis += 1
                for i in insts:
                    backends[i["backend"]] = backends.get(i["backend"], 0) + 1
                if len(samples) < 6 and insts[0].get("claim"):
                    samples.append({"obligation": name, "line": insts[0]["line"], "claim": insts[0]["claim"][:300], "backend": insts[0]["backend"]})
            elif st == "refuted":
                violations.append((name, rep["unit"], [i for i in insts if i["status"] == "refuted"], rep["pass_name"], rep.get("src")))
            else:
                cur_sha = (rep.get("src") or {}).get("sha256")
                changed = cur_sha is not None and bl_sha.get(rep["unit"]) not in (None, cur_sha)
                known_before = bl_obl.get(rep["pass_name"] + "|" + name)
                if changed and known_before in ("discharged", None):
                    # the obligation was discharged for the committed baseline source of this function and can no longer be
                    # discharged after the function changed: reported as a violation without a failing input
                    for i in insts:
                        i["note"] = (i.get("note") or "") + " [%s on the baseline source %s, not dischargeable on the changed source %s]" % (
                            "discharged" if known_before else "obligation did not exist", bl_sha.get(rep["unit"], "?")[:12], cur_sha[:12])
                    violations.append((name, rep["unit"], [i for i in insts if i["status"] != "discharged"], rep["pass_name"], rep.get("src")))
                else:
                    undecided.append((rep["unit"], rep["pass_name"], {"kind": st, "msg": name + " " + "; ".join(i.get("reason", "") for i in insts if i["status"] != "discharged")[:300]}))
    # known findings: report while the witness still fails
    for f in findings:
        still = idx.finding_still_fails(f, reports)
        if still:
            known_lines.append("KNOWN-FINDING: property=%s %s" % (prop, f["what"]))
    for e in extras:
        if e.get("status") == "violation":
            if e.get("known"):
                continue
            for c in e.get("failures") or [e]:
                violations.append(("%s/%s" % (e["name"], c.get("kind", "")), "bounded:" + e["name"], [c], "bounded", None))
        elif e.get("status") == "crash":
            crashes.append((e["name"], "extra", {"kind": "crash", "msg": e.get("detail", "")}))
        for kl in e.get("known_lines", []):
            known_lines.append(kl)

    OUT = os.environ.get("PYVC_OUT_DIR", ROOT)  # scratch runs (seeded-change trials) write elsewhere
    os.makedirs(os.path.join(OUT, "replays"), exist_ok=True)
    os.makedirs(os.path.join(OUT, "evidence"), exist_ok=True)
    vio_lines = []
    for n, (name, unit, insts, pname, src) in enumerate(violations):
        path = os.path.join("replays", "%s_%d.json" % (prop, n))
        rp = {"property": prop, "obligation": name, "unit": unit, "pass": pname, "function": src,
              "instances": insts[:3], "tier": a.tier}
        outcome = None
        try:
            outcome = idx.try_replay(prop, unit, name, insts)
        except Exception:
            outcome = {"replayed": False, "error": traceback.format_exc()[-800:]}
        rp["replay"] = outcome
        with open(os.path.join(OUT, path), "w") as fh:
            json.dump(rp, fh, indent=1, default=str)
        tail = "" if (outcome and outcome.get("replayed") and outcome.get("confirmed")) else " no-failing-input-found"
        vio_lines.append("VIOLATION property=%s replay=%s obligation=%s%s" % (prop, path, name, tail))

    known_lines = list(dict.fromkeys(known_lines))
    for l in known_lines:
        print(l)
    for u, p, e in undecided:
        print("UNDECIDED: %s [%s] %s: %s (line %s)" % (u, p, e.get("kind"), e.get("msg"), e.get("line")))
    for u, p, e in crashes:
        print("CHECKER-ERROR: %s [%s] %s\n%s" % (u, p, e.get("msg"), e.get("trace", "")))
    for n in canary_fail:
        print("CHECKER-ERROR: must-fail canary was not refuted: %s" % n)
    for l in vio_lines:
        print(l)

    if n_obl == 0 and not extras:
        print("CHECKER-ERROR: zero obligations generated for %s" % prop)
        crashes.append(("-", "-", {}))

    wall = time.time() - t0
    level = info["level"]
    assumptions = list(idx.assumptions_for(prop))
    cov = {
        "obligations": n_obl,
        "discharged": n_dis,
        "checker_cmd": "./check %s --tier %s" % (prop, a.tier),
        "trusted_base": info.get("trusted_base", []),
        "functions_under_contract": fuc,
        "backends": backends,
        "solver_seconds": round(solver_s, 2),
        "samples": samples or [{"note": "no discharged obligation sample"}],
        "known_findings": [{"id": f["id"], "what": f["what"], "when": f.get("when"), "unit": f.get("unit")} for f in findings],
        "bounded": [e for e in extras],
        "refuted_new": [v[0] for v in violations],
        "undecided": [u[2].get("msg") for u in undecided],
        "units": [{"unit": r["unit"], "pass": r["pass_name"], "paths": r.get("paths"), "wall_s": r["wall_s"],
                   "n": len(r["obligations"]), "error": r["error"]} for r in reports],
        "explanation": info.get("explanation") or _claim_text(prop),
        # callees that have neither a contract nor a model were given the contract `true` (any result, any exception, any effect)
        "uncontracted_callees": sorted({u for r in reports for u in (r.get("uncontracted") or [])}),
        # mechanical scan of the sidecars: postconditions assumed at call sites without being checked in the callee, and the
        # hand-written model functions that stand for dependencies (each is an assumption, not a proof)
        "trusted_postconditions": sorted("%s: %s" % (reg.units[k].qual, n) for k in unit_keys for (n, _src) in getattr(reg.units[k].contract, "trusted_ensures", ())),
        "assumed_dependency_models": _model_scan(reg),
    }
    if level != "proof":
        cov["evaluations"] = max(1, n_obl + sum(e.get("evaluations", 0) for e in extras))
        cov["distinct_nontrivial"] = n_dis + sum(e.get("distinct", 0) for e in extras)
        cov["rule"] = "one evaluation per generated obligation (SMT query) plus the cases of the bounded stand-ins; " + " ".join(e.get("rule", "") for e in extras)
        if extras and n_obl == 0:
            cov["exhaustive"] = all(e.get("exhaustive") for e in extras)
        bs = [x for e in extras for x in e.get("samples", [])]
        if bs:
            cov["samples"] = bs + [x for x in cov["samples"] if "note" not in x]
    ev = {"property_id": prop, "tier": a.tier if a.tier in ("quick", "thorough") else "quick", "seed": seed, "level": level,
          "coverage": cov, "assumptions": assumptions, "wall_s": round(wall, 2), "violations": len(violations)}
    with open(os.path.join(OUT, "evidence", "%s.json" % prop), "w") as fh:
        json.dump(ev, fh, indent=1, default=str)
    if a.write_baseline:
        bl = json.load(open(bl_path)) if os.path.exists(bl_path) else {}
        names, shas = {}, {}
        for rep in reports:
            if rep.get("src") and rep["src"].get("sha256"):
                shas[rep["unit"]] = rep["src"]["sha256"]
            for name, insts in group_by_name(rep["obligations"]).items():
                if insts[0]["kind"] != "canary":
                    names[rep["pass_name"] + "|" + name] = agg_status(insts)
        bl[prop] = {"obligations": names, "unit_sha": shas}
        json.dump(bl, open(bl_path, "w"), indent=1, sort_keys=True)
    print("%s: %d/%d obligations discharged, %d units, %d known findings, %d violations, %d undecided, %.1fs%s" % (
        prop, n_dis, n_obl, len(unit_keys) + len(lemma_keys), len(known_lines), len(violations), len(undecided), wall,
        "".join("; BOUNDED %s: %d cases, %s" % (e.get("name"), e.get("evaluations", 0), e.get("status")) for e in extras)))
    if violations:
        return 1
    if crashes or canary_fail:
        return 3
    if undecided:
        return 2
    return 0


if __name__ == "__main__":
    sys.exit(main())
