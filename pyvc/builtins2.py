"""
pyvc.builtins2 -- builtin functions, methods, f-strings, comprehensions, for-loops, spec forms.
"""
import ast
import z3

from . import vals as V
from .vals import Val, Ref, Func, Conc, NONE
from .sx import R, Out, Exc, Unsupported, fresh_name, LoopSpec


def _B():
    from . import builtins as B

    return B


def ok(st, v):
    return [R(st, v)]


# ---------------------------------------------------------------- spec-only special forms
def sf_old(sx, node, st):
    """old(expr): value of expr in the function's entry state"""
    entry = st.ghost.get("__entry__")
    if entry is None:
        raise Unsupported("old() outside a postcondition", node)
    s = entry.v
    # evaluate in the entry state but with current pc (entry pc is a prefix)
    s2 = s.fork()
    s2.pc = st.pc
    v = sx.ev1(node.args[0], s2)
    if isinstance(v, Ref) and not isinstance(s2.getcell(v.cell), dict):
        c = s2.getcell(v.cell)
        if isinstance(c, tuple):
            raise Unsupported("old() of an untyped empty container", node)
        v = c
    return [R(st, v)]


def _quant(sx, node, st, forall):
    lam = node.args[-1]
    if not isinstance(lam, ast.Lambda):
        raise Unsupported("quantifier needs a lambda", node)
    tys = {}
    for kw in node.keywords:
        tys[kw.arg] = sx.reg.parse_type(kw.value)
    names = [a.arg for a in lam.args.args]
    # deterministic bound-variable names: the same contract text yields syntactically identical quantifiers
    consts = [tys.get(n, V.Int).fresh("q_" + n) for n in names]
    st.frames.append(dict(zip(names, consts)))
    try:
        bounds = []
        if len(node.args) == 3:  # all_range(lo, hi, lambda i: ...)
            lo = sx.ev1(node.args[0], st)
            hi = sx.ev1(node.args[1], st)
            bounds = [consts[0].term >= sx.num(lo), consts[0].term < sx.num(hi)]
        body = sx.truthy(sx.ev1(lam.body, st), st)
    finally:
        st.frames.pop()
    vs = [c.term for c in consts]
    if forall:
        q = z3.ForAll(vs, z3.Implies(z3.And(*bounds), body) if bounds else body)
    else:
        q = z3.Exists(vs, z3.And(*(bounds + [body])))
    return [R(st, Val(V.Bool, q))]


def sf_forall(sx, node, st):
    return _quant(sx, node, st, True)


def sf_exists(sx, node, st):
    return _quant(sx, node, st, False)


def sf_implies(sx, node, st):
    a = sx.truthy(sx.ev1(node.args[0], st), st)
    # the consequent is evaluated under the antecedent (partial expressions stay guarded)
    b = sx.truthy(sx.ev1(node.args[1], st), st)
    return [R(st, Val(V.Bool, z3.Implies(a, b)))]


def sf_iff(sx, node, st):
    a = sx.truthy(sx.ev1(node.args[0], st), st)
    b = sx.truthy(sx.ev1(node.args[1], st), st)
    return [R(st, Val(V.Bool, a == b))]


def sf_ghost(sx, node, st):
    name = node.args[0].value
    if name not in st.ghost:
        raise Unsupported("unknown ghost %r" % name, node)
    return [R(st, st.ghost[name])]


SPECIAL_FORMS = {
    "old": sf_old,
    "forall": sf_forall,
    "exists": sf_exists,
    "all_range": sf_forall,
    "any_range": sf_exists,
    "implies": sf_implies,
    "iff": sf_iff,
    "ghost": sf_ghost,
}


# ---------------------------------------------------------------- builtin functions
def _len(sx, args, kw, st, node):
    (v,) = args
    from .sx import Unknown as _U
    if isinstance(v, Conc) and isinstance(v.v, _U) and not sx.spec_mode:
        n = sx.fresh(V.Int, "unknown_len", st)      # length of a value without contract: some non-negative integer, or TypeError
        st.assume(n.term >= 0)
        return [R(st, n), R(st.fork(), None, Exc("TypeError"))]
    if isinstance(v, Conc):
        if isinstance(v.v, (tuple, dict, str, bytes)):
            return ok(st, V.mk_int(len(v.v)))
        if hasattr(v.v, "__pyvc_len__"):
            return v.v.__pyvc_len__(sx, st, node)
    if isinstance(v, Ref):
        c = st.getcell(v.cell)
        if isinstance(c, tuple):
            return ok(st, V.mk_int(0))
        if isinstance(c, dict):
            m = sx.reg.obj_len(sx, v, st, node)
            if m is not None:
                return m
            raise Unsupported("len of object %r" % (v.ty,), node)
        v = c
    t = v.ty
    if isinstance(t, (V._Str, V._Bytes)):
        return ok(st, Val(V.Int, z3.Length(v.term)))
    if isinstance(t, V.List):
        return ok(st, Val(V.Int, t.n(v.term)))
    if isinstance(t, V.Tuple):
        return ok(st, V.mk_int(len(t.items)))
    if isinstance(t, V.Dict):
        return ok(st, Val(V.Int, t.size(v.term)))
    if isinstance(t, V._Json):
        B = _B()
        j = B.J()
        k = j["kind"](v.term)
        outs = []
        c = z3.Or(k == B.JLIST, k == B.JSTR, k == B.JDICT)
        s1 = st.fork().assume(c)
        if sx.spec_mode or sx.feasible(s1):
            outs.append(R(s1 if not sx.spec_mode else st, Val(V.Int, j["len"](v.term))))
        if not sx.spec_mode:
            s2 = st.fork().assume(z3.Not(c))
            if sx.feasible(s2):
                outs.append(R(s2, None, Exc("TypeError")))
        return outs
    if isinstance(t, V.Opt):
        outs = []
        isn = t.is_none(v.term)
        if not sx.spec_mode and sx.feasible(st, isn):
            outs.append(R(st.fork().assume(isn), None, Exc("TypeError")))
        if not sx.spec_mode:
            st.assume(z3.Not(isn))
        outs.extend(_len(sx, [Val(t.inner, t.get(v.term))], kw, st, node))
        return outs
    if isinstance(t, (V._Int, V._Bool, V._None, V._Real)):
        return [R(st, None, Exc("TypeError"))]
    if isinstance(t, V.Set):
        m = sx.reg.set_len(sx, v, st, node)
        if m is not None:
            return m
    raise Unsupported("len of %r" % (t,), node)


def _minmax(is_max):
    def f(sx, args, kw, st, node):
        args = [sx.deref(sx.lift(a) if isinstance(a, Conc) else a, st) for a in args]
        if len(args) == 1:
            c = args[0]
            t = c.ty
            if isinstance(t, V.List):
                n = t.n(c.term)
                outs = []
                if not sx.spec_mode and sx.feasible(st, n == 0):
                    outs.append(R(st.fork().assume(n == 0), None, Exc("ValueError")))
                if not sx.spec_mode:
                    st.assume(n > 0)
                r = sx.fresh(t.elem, "max" if is_max else "min", st)
                i = z3.Int(fresh_name("mi"))
                B = _B()
                op = ast.GtE() if is_max else ast.LtE()
                e = Val(t.elem, t.at(c.term, i))
                st.assume(z3.ForAll([i], z3.Implies(z3.And(i >= 0, i < n), B.order(sx, op, r, e, st, node)[0][1])))
                st.assume(z3.Exists([i], z3.And(i >= 0, i < n, t.at(c.term, i) == r.term)))
                outs.append(R(st, r))
                return outs
            raise Unsupported("min/max of %r" % (t,), node)
        cur = args[0]
        B = _B()
        for a in args[1:]:
            op = ast.Gt() if is_max else ast.Lt()
            res = B.order(sx, op, a, cur, st, node)
            if len(res) != 1 or res[0][2] is not None:
                raise Unsupported("min/max with possibly incomparable operands", node)
            cur = sx.ite(res[0][1], a, cur, st)
            if cur is None:
                raise Unsupported("min/max of mixed types", node)
        return ok(st, cur)

    return f


def _int(sx, args, kw, st, node):
    if not args:
        return ok(st, V.mk_int(0))
    v = sx.deref(sx.lift(args[0]) if isinstance(args[0], Conc) else args[0], st)
    t = v.ty
    if isinstance(t, V._Int):
        return ok(st, v)
    if isinstance(t, V._Bool):
        return ok(st, Val(V.Int, sx.num(v)))
    if isinstance(t, V._Real):
        # int() truncates toward zero
        x = v.term
        return ok(st, Val(V.Int, z3.If(x >= 0, z3.ToInt(x), -z3.ToInt(-x))))
    if isinstance(t, V._Str):
        # int(str): decimal with optional sign/whitespace/underscores: modelled by uninterpreted parse + validity
        valid = sx.reg.str_is_int(v.term)
        outs = []
        if not sx.spec_mode and sx.feasible(st, z3.Not(valid)):
            outs.append(R(st.fork().assume(z3.Not(valid)), None, Exc("ValueError")))
        if not sx.spec_mode:
            st.assume(valid)
        outs.append(R(st, Val(V.Int, sx.reg.str_to_int(v.term))))
        return outs
    if isinstance(t, V._Json):
        B = _B()
        j = B.J()
        k = j["kind"](v.term)
        outs = []
        s1 = st.fork().assume(z3.Or(k == B.JINT, k == B.JBOOL, k == B.JFLOAT))
        if sx.feasible(s1):
            outs.append(R(s1, Val(V.Int, j["int"](v.term))))
        s2 = st.fork().assume(k == B.JSTR)
        if sx.feasible(s2):
            outs.append(R(s2.fork(), Val(V.Int, z3.Int(fresh_name("jint")))))
            outs.append(R(s2, None, Exc("ValueError")))
        s3 = st.fork().assume(z3.Or(k == B.JNULL, k == B.JLIST, k == B.JDICT))
        if sx.feasible(s3):
            outs.append(R(s3, None, Exc("TypeError")))
        return outs
    if isinstance(t, (V._None, V.List, V.Tuple)):
        return [R(st, None, Exc("TypeError"))]
    raise Unsupported("int() of %r" % (t,), node)


def _str(sx, args, kw, st, node):
    if not args:
        return ok(st, V.mk_str(""))
    v = args[0]
    if isinstance(v, Conc) and isinstance(v.v, Exc):
        e = v.v
        if e.msg is not None and isinstance(e.msg, Val) and isinstance(e.msg.ty, V._Str):
            return ok(st, e.msg)
        return ok(st, sx.fresh(V.Str, "excmsg", st))
    if isinstance(v, Conc) and not isinstance(v.v, (int, str, float, bool, bytes, type(None), tuple)):
        return ok(st, sx.fresh(V.Str, "objstr", st))
    if isinstance(v, Ref) and isinstance(st.heap.get(v.cell), dict):
        return ok(st, sx.fresh(V.Str, "objstr", st))
    v = sx.deref(sx.lift(v) if isinstance(v, Conc) else v, st)
    t = v.ty
    if isinstance(t, V._Str):
        return ok(st, v)
    if isinstance(t, V._Int):
        if not sx.spec_mode:
            for f in sx.reg.int_str_facts(v.term):
                st.assume(f)
        return ok(st, Val(V.Str, sx.reg.int_to_str(v.term)))
    if isinstance(t, V._Json):
        B = _B()
        j = B.J()
        r = sx.fresh(V.Str, "jstr", st)
        st.assume(z3.Implies(j["kind"](v.term) == B.JSTR, r.term == j["str"](v.term)))
        return ok(st, r)
    if isinstance(t, V._Bool):
        return ok(st, Val(V.Str, z3.If(v.term, z3.StringVal("True"), z3.StringVal("False"))))
    if isinstance(t, V.Opt) and isinstance(t.inner, (V._Int, V._Str)) and not sx.spec_mode:
        # str(None) == 'None'; otherwise the text of the value
        outs = []
        isn = t.is_none(v.term)
        s_none = st.fork().assume(isn)
        if sx.feasible(s_none):
            outs.append(R(s_none, V.mk_str("None")))
        s_some = st.assume(z3.Not(isn))
        if sx.feasible(s_some):
            outs.extend(_str(sx, [Val(t.inner, t.get(v.term))], kw, s_some, node))
        return outs
    m = sx.reg.str_of(sx, v, st, node)
    if m is not None:
        return m
    return ok(st, sx.fresh(V.Str, "str", st))


def _bool(sx, args, kw, st, node):
    if not args:
        return ok(st, V.mk_bool(False))
    return ok(st, Val(V.Bool, sx.truthy(args[0], st)))


def _isinstance(sx, args, kw, st, node):
    v, cls = args
    from .sx import Unknown
    if isinstance(v, Conc) and isinstance(v.v, Unknown):
        return ok(st, Val(V.Bool, z3.Bool(fresh_name("unknown_isinstance"))))   # nothing is known about the value
    names = sx.reg.class_names(cls)
    v = sx.deref(sx.lift(v) if isinstance(v, Conc) and not isinstance(v.v, (dict, Exc, tuple)) else v, st)
    B = _B()

    def one(name):
        if isinstance(v, Conc):
            if isinstance(v.v, dict):
                return z3.BoolVal(name == "dict")
            if isinstance(v.v, tuple):
                return z3.BoolVal(name == "tuple")
            if isinstance(v.v, Exc):
                return z3.BoolVal(B_is_sub(v.v.cls, name))
            return z3.BoolVal(False)
        if isinstance(v, Ref):
            return z3.BoolVal(sx.reg.ref_isinstance(v, name, st))
        t = v.ty
        if isinstance(t, V._Json):
            j = B.J()
            k = j["kind"](v.term)
            m = {"list": k == B.JLIST, "dict": k == B.JDICT, "str": k == B.JSTR,
                 "int": z3.Or(k == B.JINT, k == B.JBOOL), "bool": k == B.JBOOL, "float": k == B.JFLOAT}
            return m.get(name, z3.BoolVal(False))
        if isinstance(t, V.Opt):
            inner = {"int": (V._Int, V._Bool), "str": (V._Str,), "bytes": (V._Bytes,), "list": (V.List,), "tuple": (V.Tuple,),
                     "bool": (V._Bool,), "float": (V._Real,), "dict": (V.Dict,), "set": (V.Set,)}.get(name)
            if inner is None:
                if isinstance(t.inner, V.Rec):
                    return z3.And(z3.Not(t.is_none(v.term)), z3.BoolVal(t.inner.rname == name))
                return z3.BoolVal(False)
            return z3.And(z3.Not(t.is_none(v.term)), z3.BoolVal(isinstance(t.inner, inner)))
        table = {"int": (V._Int, V._Bool), "str": (V._Str,), "bytes": (V._Bytes,), "list": (V.List,), "tuple": (V.Tuple,),
                 "bool": (V._Bool,), "float": (V._Real,), "dict": (V.Dict,), "set": (V.Set,)}
        if name in table:
            return z3.BoolVal(isinstance(t, table[name]))
        if isinstance(t, V.Rec):
            return z3.BoolVal(t.rname == name or name in sx.reg.rec_bases(t.rname))
        return z3.BoolVal(False)

    return ok(st, Val(V.Bool, z3.simplify(z3.Or(*[one(n) for n in names]))))


def B_is_sub(c, p):
    from .sx import is_subclass

    return is_subclass(c, p)


def iter_elems(sx, v, st, node):
    """describe an iterable: -> ('list', Val(List)) | ('conc', [Vals]) | ('opaque', IterSpec)"""
    if isinstance(v, Conc):
        if isinstance(v.v, (tuple, list)):
            return ("conc", list(v.v))
        if isinstance(v.v, dict):
            return ("conc", [V.mk_str(k) for k in v.v])
        if hasattr(v.v, "__pyvc_iter__"):
            return v.v.__pyvc_iter__(sx, st, node)
        raise Unsupported("iteration over concrete %r" % (v.v,), node)
    if isinstance(v, Ref):
        c = st.getcell(v.cell)
        if isinstance(c, tuple):
            return ("conc", [])
        if isinstance(c, dict):
            m = sx.reg.obj_iter(sx, v, st, node)
            if m is not None:
                return m
            raise Unsupported("iteration over object %r" % (v.ty,), node)
        v = c
    t = v.ty
    if isinstance(t, V.Opt):
        if sx.spec_mode or not sx.feasible(st, t.is_none(v.term)):
            return iter_elems(sx, Val(t.inner, t.get(v.term)), st, node)
        raise Unsupported("iteration over a value that may be None", node)
    if isinstance(t, V.List):
        return ("list", v)
    if isinstance(t, V.Tuple):
        return ("conc", [Val(it, t.field(v.term, i)) for i, it in enumerate(t.items)])
    if isinstance(t, V._Str):
        # iterate characters: list of 1-char strings
        # the list of characters is *defined* from the string (same string term => same list term)
        lt = V.List(V.Str)
        i = z3.Int("chi")
        return ("list", Val(lt, lt.mk(z3.Lambda([i], z3.SubString(v.term, i, 1)), z3.Length(v.term))))
    if isinstance(t, V._Json):
        return ("json", v)
    if isinstance(t, V.Set):
        m = sx.reg.set_iter(sx, v, st, node)
        if m is not None:
            return m
    raise Unsupported("iteration over %r" % (t,), node)


def _any_all(is_all):
    def f(sx, args, kw, st, node):
        (v,) = args
        kind, payload = iter_elems(sx, v, st, node)[:2]
        if kind == "conc":
            ts = [sx.truthy(x, st) for x in payload]
            if not ts:
                return ok(st, V.mk_bool(is_all))
            return ok(st, Val(V.Bool, z3.And(*ts) if is_all else z3.Or(*ts)))
        if kind == "list":
            t = payload.ty
            i = z3.Int(fresh_name("ai"))
            e = sx.truthy(Val(t.elem, t.at(payload.term, i)), st)
            rng = z3.And(i >= 0, i < t.n(payload.term))
            if is_all:
                return ok(st, Val(V.Bool, z3.ForAll([i], z3.Implies(rng, e))))
            return ok(st, Val(V.Bool, z3.Exists([i], z3.And(rng, e))))
        if not sx.spec_mode:
            # an iterable the executor does not interpret (opaque iterator, generator over one): some answer (contract `true`)
            sx.uncontracted.append("%s() over %s (line %s)" % ("all" if is_all else "any", kind, getattr(node, "lineno", "?")))
            return ok(st, Val(V.Bool, z3.Bool(fresh_name("unknown_anyall"))))
        raise Unsupported("any/all over %s" % kind, node)

    return f


def _range(sx, args, kw, st, node):
    args = [sx.lift(a) if isinstance(a, Conc) else a for a in args]
    lo, hi = (V.mk_int(0), args[0]) if len(args) == 1 else (args[0], args[1])
    if len(args) == 3:
        raise Unsupported("range step", node)
    t = V.List(V.Int)
    r = t.fresh(fresh_name("range"))
    i = z3.Int(fresh_name("ri"))
    st.assume(t.n(r.term) == z3.If(hi.term > lo.term, hi.term - lo.term, 0))
    st.assume(z3.ForAll([i], z3.Implies(z3.And(i >= 0, i < t.n(r.term)), t.at(r.term, i) == lo.term + i)))
    return ok(st, r)


def _tuple(sx, args, kw, st, node):
    if not args:
        return ok(st, Conc(()))
    v = args[0]
    kind, payload = iter_elems(sx, v, st, node)[:2]
    if kind == "list":
        return ok(st, payload)  # immutable snapshot of the list value
    if kind == "conc":
        return ok(st, sx.mk_tuple(payload, st))
    raise Unsupported("tuple() of %s" % kind, node)


def _list(sx, args, kw, st, node):
    if not args:
        return ok(st, Ref(V.List(V.Int), st.alloc(("emptylist",))))
    kind, payload = iter_elems(sx, args[0], st, node)[:2]
    if kind == "list":
        return ok(st, Ref(payload.ty, st.alloc(payload)))
    if kind == "conc":
        return ok(st, sx.new_list(payload, st, node))
    raise Unsupported("list() of %s" % kind, node)


def _set(sx, args, kw, st, node):
    if not args:
        return ok(st, Ref(V.Set(V.Int), st.alloc(("emptyset",))))
    v = args[0]
    if isinstance(v, Val) and v.term is not None and isinstance(v.ty, V._Json):
        # set(json list): TypeError if unhashable element; else opaque set
        m = sx.reg.set_of_json(sx, v, st, node)
        if m is not None:
            return m
    kind, payload = iter_elems(sx, v, st, node)[:2]
    if kind == "list":
        t = payload.ty
        s_t = V.Set(t.elem)
        x = z3.Const(fresh_name("sx"), t.elem.sort())
        i = z3.Int(fresh_name("si"))
        term = z3.Lambda([x], z3.Exists([i], z3.And(i >= 0, i < t.n(payload.term), t.at(payload.term, i) == x)))
        return ok(st, Ref(s_t, st.alloc(Val(s_t, term))))
    if kind == "conc":
        if not payload:
            return ok(st, Ref(V.Set(V.Int), st.alloc(("emptyset",))))
        vals = [sx.lift(p) if isinstance(p, Conc) else p for p in payload]
        s_t = V.Set(vals[0].ty)
        term = s_t.empty()
        for p in vals:
            term = z3.Store(term, p.term, True)
        return ok(st, Ref(s_t, st.alloc(Val(s_t, term))))
    raise Unsupported("set() of %s" % kind, node)


def _sorted(sx, args, kw, st, node):
    m = sx.reg.sorted_model(sx, args, kw, st, node)
    if m is not None:
        return m
    raise Unsupported("sorted()", node)


def _abs(sx, args, kw, st, node):
    v = sx.lift(args[0]) if isinstance(args[0], Conc) else args[0]
    return ok(st, Val(v.ty, z3.If(v.term >= 0, v.term, -v.term)))


def _getattr(sx, args, kw, st, node):
    o, name = args[0], args[1]
    nm = z3.simplify(sx.lift(name).term if isinstance(name, Conc) else name.term)
    if z3.is_string_value(nm):
        return sx.getattr(o, nm.as_string(), st, node)
    m = sx.reg.getattr_dynamic(sx, o, name, st, node)
    if m is not None:
        return m
    raise Unsupported("getattr with symbolic name", node)


def _iter(sx, args, kw, st, node):
    kind, payload = iter_elems(sx, args[0], st, node)[:2]
    if kind == "list":
        cell = st.alloc({"seq": payload, "pos": V.mk_int(0), "__class__": Conc("listiter")})
        return ok(st, Ref(V.ObjT("listiter"), cell))
    if kind == "opaque" and not sx.spec_mode:
        # an iterator over a value nothing is known about (e.g. a module-level container nobody gave a contract): a value
        # without contract, or the call fails
        from .sx import Unknown
        return [R(st, Conc(Unknown("iter(<value without contract>)"))), R(st.fork(), None, Exc("Exception", exact=False))]
    raise Unsupported("iter() of %s" % kind, node)


def _next(sx, args, kw, st, node):
    it = args[0]
    if isinstance(it, Ref) and isinstance(st.getcell(it.cell), dict) and "seq" in st.getcell(it.cell):
        c = st.getcell(it.cell)
        seq, pos = c["seq"], c["pos"]
        t = seq.ty
        done = z3.simplify(pos.term >= t.n(seq.term))
        outs = []
        if not z3.is_false(done) and sx.feasible(st, done):
            outs.append(R(st.fork().assume(done), None, Exc("StopIteration")))
        if not z3.is_true(done):
            st.assume(z3.Not(done))
            st.getcell(it.cell)["pos"] = Val(V.Int, z3.simplify(pos.term + 1))
            outs.append(R(st, Val(t.elem, t.at(seq.term, pos.term))))
        return outs
    from .sx import Unknown
    if isinstance(it, Conc) and isinstance(it.v, Unknown) and not sx.spec_mode:
        return [R(st, Conc(Unknown("next(%s)" % it.v.why))), R(st.fork(), None, Exc("Exception", exact=False))]
    raise Unsupported("next() of %r" % (it,), node)


def _bytes_ctor(sx, args, kw, st, node):
    if not args:
        return ok(st, V.mk_bytes(b""))
    v = sx.deref(args[0], st)
    if isinstance(v.ty, V._Bytes):
        return ok(st, v)
    m = sx.reg.bytes_of(sx, v, st, node)
    if m is not None:
        return m
    raise Unsupported("bytes() of %r" % (v.ty,), node)


def _dict_ctor(sx, args, kw, st, node):
    if args or kw:
        raise Unsupported("dict(...) with arguments", node)
    return ok(st, Ref(V.Dict(V.Str, V.Int), st.alloc(("emptydict",))))


def _float(sx, args, kw, st, node):
    v = sx.lift(args[0]) if isinstance(args[0], Conc) else args[0]
    if isinstance(v.ty, V._Real):
        return ok(st, v)
    if isinstance(v.ty, (V._Int, V._Bool)):
        return ok(st, Val(V.Real, z3.ToReal(sx.num(v))))
    raise Unsupported("float() of %r" % (v.ty,), node)


def _chr(sx, args, kw, st, node):
    v = z3.simplify(sx.lift(args[0]).term if isinstance(args[0], Conc) else args[0].term)
    if z3.is_int_value(v):
        return ok(st, V.mk_str(chr(v.as_long())))
    return ok(st, Val(V.Str, z3.StrFromCode(v)))


def _reversed(sx, args, kw, st, node):
    kind, payload = iter_elems(sx, args[0], st, node)[:2]
    if kind == "conc":
        return ok(st, Conc(tuple(reversed(payload))))
    if kind == "list":
        t = payload.ty
        r = t.fresh(fresh_name("reversed"))
        i = z3.Int(fresh_name("rv"))
        n = t.n(payload.term)
        st.assume(t.n(r.term) == n)
        st.assume(z3.ForAll([i], z3.Implies(z3.And(i >= 0, i < n), t.at(r.term, i) == t.at(payload.term, n - 1 - i))))
        return ok(st, r)
    raise Unsupported("reversed() of %s" % kind, node)


BUILTIN_FUNCS = {
    "reversed": _reversed,
    "chr": _chr,
    "dict": _dict_ctor,
    "float": _float,
    "len": _len,
    "min": _minmax(False),
    "max": _minmax(True),
    "int": _int,
    "str": _str,
    "bool": _bool,
    "isinstance": _isinstance,
    "any": _any_all(False),
    "all": _any_all(True),
    "range": _range,
    "tuple": _tuple,
    "list": _list,
    "set": _set,
    "sorted": _sorted,
    "abs": _abs,
    "getattr": _getattr,
    "iter": _iter,
    "next": _next,
    "bytes": _bytes_ctor,
}


def builtin(name):
    f = BUILTIN_FUNCS.get(name)
    return Func(f, "builtin:" + name) if f else None


# ---------------------------------------------------------------- methods on values
def bound_method(sx, obj, attr, node):
    def call(sx2, args, kwargs, st, callnode):
        return call_method(sx2, obj, attr, args, kwargs, st, callnode)

    return Func(call, "method:%s" % attr)


def hexchars(term, lower_only=True):
    cls = z3.Union(z3.Range("0", "9"), z3.Range("a", "f")) if lower_only else z3.Union(z3.Range("0", "9"), z3.Range("a", "f"), z3.Range("A", "F"))
    return z3.InRe(term, z3.Star(cls))


def call_method(sx, obj, attr, args, kwargs, st, node):
    B = _B()
    def _lift(a):
        if isinstance(a, Conc) and isinstance(a.v, (bool, int, float, str, bytes, type(None))):
            return sx.lift(a)
        return a
    args = [_lift(a) for a in args]
    if isinstance(obj, Conc) and isinstance(obj.v, dict):
        d = obj.v
        if attr == "get":
            k = z3.simplify(args[0].term)
            if z3.is_string_value(k):
                if k.as_string() in d:
                    return ok(st, d[k.as_string()])
                return ok(st, args[1] if len(args) > 1 else NONE)
            raise Unsupported("symbolic key for concrete dict.get", node)
        if attr == "items":
            return ok(st, Conc(tuple(Conc((V.mk_str(k), v)) for k, v in d.items())))
        raise Unsupported("method %s of concrete dict" % attr, node)
    if isinstance(obj, Ref):
        content = st.getcell(obj.cell)
        if isinstance(content, tuple):
            # untyped empty list/set/dict
            kind = content[0]
            if attr in ("append", "add", "appendleft") and args:
                a0 = sx.deref(args[0], st)
                if isinstance(a0, (Ref, Func)) or a0.ty is None:
                    raise Unsupported("storing %r in a list" % (a0,), node)
                content = B.typed_empty(sx, obj, st, a0.ty)
            elif attr in ("clear",):
                return ok(st, NONE)
            elif attr in ("sort", "reverse"):
                return ok(st, NONE)
            elif attr in ("get",) and kind == "emptydict":
                return ok(st, args[1] if len(args) > 1 else NONE)
            elif attr in ("items", "values", "keys") and kind == "emptydict":
                return ok(st, Conc(()))
            elif attr in ("update", "extend"):
                k2, payload = iter_elems(sx, args[0], st, node)[:2]
                if k2 == "list":
                    if kind == "emptyset":
                        et = payload.ty.elem
                        content = B.typed_empty(sx, obj, st, et, "set")
                    else:
                        content = B.typed_empty(sx, obj, st, payload.ty.elem)
                elif k2 == "conc" and not payload:
                    return ok(st, NONE)
                else:
                    raise Unsupported("update/extend of untyped empty container", node)
            elif attr == "setdefault" and kind == "emptydict":
                pass
            else:
                raise Unsupported("method %s on empty %s" % (attr, kind), node)
        if isinstance(content, dict):
            raise Unsupported("method %s on object %r" % (attr, obj.ty), node)
        if isinstance(st.getcell(obj.cell), Val):
            return mutable_method(sx, obj, attr, args, kwargs, st, node)
    if isinstance(obj, Conc):
        raise Unsupported("method %s of %r" % (attr, obj), node)
    t = obj.ty
    if isinstance(t, (V._Str, V._Bytes)):
        return str_method(sx, obj, attr, args, kwargs, st, node)
    if isinstance(t, V._Int):
        return int_method(sx, obj, attr, args, kwargs, st, node)
    if isinstance(t, V.List):
        # immutable view (tuple): only reading methods
        if attr in ("index", "count"):
            raise Unsupported("tuple.%s" % attr, node)
    if isinstance(t, V._Json):
        return json_method(sx, obj, attr, args, kwargs, st, node)
    if isinstance(t, V.Set) and attr in ("intersection", "union", "issubset"):
        other = sx.deref(args[0], st)
        if isinstance(other.ty, V.Opt):
            # set.intersection(None) raises TypeError
            ot = other.ty
            outs = []
            isn = ot.is_none(other.term)
            if sx.feasible(st, isn):
                outs.append(R(st.fork().assume(isn), None, Exc("TypeError")))
            st.assume(z3.Not(isn))
            outs.extend(call_method(sx, obj, attr, [Val(ot.inner, ot.get(other.term))], kwargs, st, node))
            return outs
        if attr == "issubset":
            x = z3.Const(fresh_name("ss"), t.elem.sort())
            return ok(st, Val(V.Bool, z3.ForAll([x], z3.Implies(z3.Select(obj.term, x), z3.Select(other.term, x)))))
        return B.binop(sx, ast.BitAnd() if attr == "intersection" else ast.BitOr(), obj, other, st, node)
    if isinstance(t, V.Dict) and attr in ("values", "keys", "items") and not args:
        # iteration over a dictionary VALUE: yields the entries of its domain (ASSUMED: each key once, in some order)
        return ok(st, Conc(DictIter(obj, attr)))
    if isinstance(t, V.Dict) and attr == "get":
        k = sx.coerce(args[0], t.k, st)
        dflt = args[1] if len(args) > 1 else NONE
        if isinstance(dflt, Ref) and isinstance(st.heap.get(dflt.cell), tuple):
            # literal {} / [] default: the empty value of the mapped type
            if isinstance(t.v, (V.Dict, V.List)):
                dflt = Val(t.v, t.v.empty())
        has = z3.Select(t.dom(obj.term), k.term)
        got = Val(t.v, z3.Select(t.map(obj.term), k.term))
        m = sx.ite(has, got, dflt, st)
        if m is None:
            raise Unsupported("dict.get with incompatible default", node)
        return ok(st, m)
    m = sx.reg.value_method(sx, obj, attr, args, kwargs, st, node)
    if m is not None:
        return m
    if isinstance(t, (V.List, V.Set, V.Dict)) and attr in ("append", "extend", "insert", "pop", "remove", "clear", "sort", "reverse", "add", "update",
                                                           "discard", "setdefault", "popitem", "appendleft") and not sx.spec_mode:
        # an in-place mutation of a container VALUE (e.g. an element of event.tags): the function writes to an object it was
        # handed and that no `modifies` clause names -- a frame violation
        sx.oblige(st, "%s/frame:mutates-a-container-it-does-not-own@%s" % (sx.cur_func, getattr(node, "lineno", "?")), z3.BoolVal(False), "frame", node)
        return ok(st, NONE)
    raise Unsupported("method %s on %r" % (attr, t), node)


class DictIter:
    def __init__(self, d, what):
        self.d = d
        self.what = what

    def __pyvc_iter__(self, sx, st, node):
        return ("opaque", self)

    def __pyvc_len__(self, sx, st, node):
        return [R(st, Val(V.Int, self.d.ty.size(self.d.term)))]

    def next(self, sx, st, k):
        t = self.d.ty
        key = sx.fresh(t.k, "dkey", st)
        st.assume(z3.Select(t.dom(self.d.term), key.term))
        val = Val(t.v, z3.Select(t.map(self.d.term), key.term))
        for w in t.v.wellformed(val.term):
            st.assume(w)
        if self.what == "keys":
            return [R(st, key)]
        if self.what == "values":
            return [R(st, val)]
        return [R(st, sx.mk_tuple([key, val], st))]


def mutable_method(sx, ref, attr, args, kwargs, st, node):
    B = _B()
    c = st.getcell(ref.cell)
    t = c.ty
    if isinstance(t, V.List):
        n = t.n(c.term)
        arr = t.arr(c.term)
        if attr == "append":
            v = sx.coerce(args[0], t.elem, st)
            st.setcell(ref.cell, Val(t, t.mk(z3.Store(arr, n, v.term), n + 1)))
            return ok(st, NONE)
        if attr == "clear":
            st.setcell(ref.cell, Val(t, t.empty()))
            return ok(st, NONE)
        if attr in ("insert", "appendleft"):
            if attr == "insert":
                pos = z3.simplify(sx.num(args[0]))
                if not (z3.is_int_value(pos) and pos.as_long() == 0):
                    raise Unsupported("list.insert at non-zero position", node)
                v = args[1]
            else:
                v = args[0]
            v = sx.coerce(v, t.elem, st)
            r = t.fresh(fresh_name("ins"))
            i = z3.Int(fresh_name("ii"))
            st.assume(t.n(r.term) == n + 1)
            st.assume(t.at(r.term, 0) == v.term)
            st.assume(z3.ForAll([i], z3.Implies(z3.And(i >= 1, i < n + 1), t.at(r.term, i) == z3.Select(arr, i - 1))))
            st.setcell(ref.cell, r)
            return ok(st, NONE)
        if attr == "pop":
            outs = []
            if sx.feasible(st, n == 0):
                outs.append(R(st.fork().assume(n == 0), None, Exc("IndexError")))
            st.assume(n > 0)
            if args:
                pos = z3.simplify(sx.num(args[0]))
                if not (z3.is_int_value(pos) and pos.as_long() == 0):
                    raise Unsupported("list.pop at non-zero position", node)
                r = t.fresh(fresh_name("pop"))
                i = z3.Int(fresh_name("pi"))
                st.assume(t.n(r.term) == n - 1)
                st.assume(z3.ForAll([i], z3.Implies(z3.And(i >= 0, i < n - 1), t.at(r.term, i) == z3.Select(arr, i + 1))))
                st.setcell(ref.cell, r)
                outs.append(R(st, Val(t.elem, z3.Select(arr, 0))))
            else:
                st.setcell(ref.cell, Val(t, t.mk(arr, n - 1)))
                outs.append(R(st, Val(t.elem, z3.Select(arr, n - 1))))
            return outs
        if attr == "extend":
            kind, payload = iter_elems(sx, args[0], st, node)[:2]
            if kind == "list" and payload.ty == t:
                st.setcell(ref.cell, B.list_concat(sx, c, payload, st))
                return ok(st, NONE)
            if kind == "conc":
                for p in payload:
                    mutable_method(sx, ref, "append", [p], {}, st, node)
                return ok(st, NONE)
            if not sx.spec_mode:
                # extended by an iterable known only through a model: some list that starts with the old contents
                r = t.fresh(fresh_name("extended"))
                i = z3.Int(fresh_name("xi"))
                st.assume(t.n(r.term) >= n)
                st.assume(z3.ForAll([i], z3.Implies(z3.And(i >= 0, i < n), t.at(r.term, i) == z3.Select(arr, i))))
                sx.reg.havoc_ghost_for_unknown_call(sx, st)
                sx.uncontracted.append("list.extend with an iterator model (line %s)" % getattr(node, "lineno", "?"))
                st.setcell(ref.cell, r)
                return [R(st, NONE), R(st.fork(), None, Exc("Exception", exact=False))]
            raise Unsupported("extend with %s" % kind, node)
        if attr == "sort":
            m = sx.reg.sort_model(sx, ref, kwargs, st, node)
            if m is not None:
                return m
            raise Unsupported("list.sort", node)
        return call_method(sx, c, attr, args, kwargs, st, node)
    if isinstance(t, V.Set):
        if attr == "add":
            v = sx.coerce(args[0], t.elem, st)
            st.setcell(ref.cell, Val(t, z3.Store(c.term, v.term, True)))
            return ok(st, NONE)
        if attr == "clear":
            st.setcell(ref.cell, Val(t, t.empty()))
            return ok(st, NONE)
        if attr == "discard":
            v = sx.coerce(args[0], t.elem, st)
            st.setcell(ref.cell, Val(t, z3.Store(c.term, v.term, False)))
            return ok(st, NONE)
        if attr in ("intersection_update", "difference_update"):
            other = sx.deref(args[0], st)
            if isinstance(other, Val) and other.ty == t:
                x = z3.Const(fresh_name("siu"), t.elem.sort())
                keep = z3.Select(other.term, x) if attr == "intersection_update" else z3.Not(z3.Select(other.term, x))
                st.setcell(ref.cell, Val(t, z3.Lambda([x], z3.And(z3.Select(c.term, x), keep)),
                                         {"ne": z3.Exists([x], z3.And(z3.Select(c.term, x), keep))}))
                return ok(st, NONE)
            raise Unsupported("set.%s with %r" % (attr, other), node)
        if attr == "update":
            other = sx.deref(args[0], st)
            if isinstance(other, Val) and other.ty == t:
                x = z3.Const(fresh_name("su"), t.elem.sort())
                newt = z3.Lambda([x], z3.Or(z3.Select(c.term, x), z3.Select(other.term, x)))
                aux = None if isinstance(t.elem, V._Bool) else {"ne": z3.Or(sx.set_nonempty(c, st), sx.set_nonempty(other, st))}
                st.setcell(ref.cell, Val(t, newt, aux))
                return ok(st, NONE)
            kind, payload = iter_elems(sx, args[0], st, node)[:2]
            if kind == "list" and payload.ty.elem == t.elem:
                lt = payload.ty
                x = z3.Const(fresh_name("su"), t.elem.sort())
                i = z3.Int(fresh_name("sui"))
                newt = z3.Lambda([x], z3.Or(z3.Select(c.term, x), z3.Exists([i], z3.And(i >= 0, i < lt.n(payload.term), lt.at(payload.term, i) == x))))
                aux = None if isinstance(t.elem, V._Bool) else {"ne": z3.Or(sx.set_nonempty(c, st), lt.n(payload.term) > 0)}
                st.setcell(ref.cell, Val(t, newt, aux))
                return ok(st, NONE)
            if kind == "conc":
                for pv in payload:
                    mutable_method(sx, ref, "add", [pv], {}, st, node)
                return ok(st, NONE)
            raise Unsupported("set.update with %s" % kind, node)
        return call_method(sx, c, attr, args, kwargs, st, node)
    if isinstance(t, V.Dict):
        if attr == "get":
            return call_method(sx, c, attr, args, kwargs, st, node)
        if attr == "pop":
            k = sx.coerce(args[0], t.k, st)
            has = z3.Select(t.dom(c.term), k.term)
            got = Val(t.v, z3.Select(t.map(c.term), k.term))
            outs = []
            if len(args) > 1:
                m = sx.ite(has, got, args[1], st)
                if m is None:
                    raise Unsupported("dict.pop default type", node)
                res = m
            else:
                if sx.feasible(st, z3.Not(has)):
                    outs.append(R(st.fork().assume(z3.Not(has)), None, Exc("KeyError")))
                st.assume(has)
                res = got
            st.setcell(ref.cell, Val(t, t.remove(c.term, k.term)))
            outs.append(R(st, res))
            return outs
        if attr == "clear":
            st.setcell(ref.cell, Val(t, t.empty()))
            return ok(st, NONE)
    m = sx.reg.value_method(sx, ref, attr, args, kwargs, st, node)
    if m is not None:
        return m
    raise Unsupported("method %s on mutable %r" % (attr, t), node)


def str_method(sx, obj, attr, args, kwargs, st, node):
    t = obj.ty
    s = obj.term
    if attr == "lower":
        f = sx.reg.ufun("str_lower", [z3.StringSort()], z3.StringSort())
        r = Val(t, f(s))
        # facts: lower() is the identity on strings without cased characters we care about; idempotent
        st.assume(f(r.term) == r.term)
        st.assume(z3.Implies(z3.InRe(s, z3.Star(z3.Union(z3.Range("0", "9"), z3.Range("a", "z"), z3.Range(" ", "@")))), r.term == s))
        return ok(st, r)
    if attr == "startswith":
        a = args[0]
        return ok(st, Val(V.Bool, z3.PrefixOf(a.term, s)))
    if attr == "endswith":
        return ok(st, Val(V.Bool, z3.SuffixOf(args[0].term, s)))
    if attr == "hex" and isinstance(t, V._Bytes):
        return ok(st, Val(V.Str, sx.reg.bytes_hex(sx, s, st)))
    if attr == "encode" and isinstance(t, V._Str):
        return ok(st, Val(V.Bytes, sx.reg.utf8(sx, s, st)))
    if attr == "replace":
        a, b = args[0], args[1]
        s0, a0 = z3.simplify(s), z3.simplify(a.term)
        if z3.is_string_value(s0) and z3.is_string_value(a0) and a0.as_string():
            # constant text and constant pattern: exact
            import re as _re
            dec = lambda x: _re.sub(r"\\u\{([0-9a-fA-F]+)\}", lambda mm: chr(int(mm.group(1), 16)), x.as_string())
            parts = dec(s0).split(dec(a0))
            terms = []
            for i, p_ in enumerate(parts):
                if i:
                    terms.append(b.term)
                    remember_class(b.term, sx.str_class(b, st))
                if p_:
                    terms.append(z3.StringVal(p_))
            if not terms:
                return ok(st, Val(t, z3.StringVal("")))
            r = Val(t, z3.Concat(*terms) if len(terms) > 1 else terms[0])
            cls = classes_of(sx, terms, st)
            if not sx.spec_mode and len(terms) > 1:
                sx.with_class(r, z3.Concat(*cls), st)
            return ok(st, r)
        r = sx.fresh(t, "repl", st)
        f = sx.reg.ufun("str_replace_all", [z3.StringSort()] * 3, z3.StringSort())
        st.assume(r.term == f(s, a.term, b.term))
        for fact in sx.reg.replace_facts(s, a.term, b.term, r.term):
            st.assume(fact)
        return ok(st, r)
    if attr == "strip":
        r = sx.fresh(t, "strip", st)
        st.assume(z3.Contains(s, r.term))
        return ok(st, r)
    if attr == "isalnum":
        return ok(st, Val(V.Bool, z3.Bool(fresh_name("isalnum"))))
    if attr == "format" and not kwargs:
        f0 = z3.simplify(s)
        if z3.is_string_value(f0):
            import re as _re
            text = _re.sub(r"\\u\{([0-9a-fA-F]+)\}", lambda mm: chr(int(mm.group(1), 16)), f0.as_string())
            pieces = text.split("{}")
            if len(pieces) == len(args) + 1 and "{" not in "".join(pieces) and "}" not in "".join(pieces):
                terms, cur = [], st
                for i, pc_ in enumerate(pieces):
                    if pc_:
                        terms.append(z3.StringVal(pc_))
                    if i < len(args):
                        rs = _str(sx, [args[i]], {}, cur, node)
                        if len(rs) != 1 or rs[0].exc is not None:
                            raise Unsupported("str.format argument", node)
                        remember_class(rs[0].val.term, sx.str_class(rs[0].val, cur))
                        terms.append(rs[0].val.term)
                cls = classes_of(sx, terms, cur)
                r = Val(t, z3.Concat(*terms) if len(terms) > 1 else terms[0])
                if not sx.spec_mode:
                    sx.with_class(r, z3.Concat(*cls) if len(cls) > 1 else cls[0], cur)
                return [R(cur, r)]
    if attr == "join":
        m = sx.reg.join_model(sx, obj, args[0], st, node)
        declared = None
        if m is None and isinstance(node, ast.Call) and node.args and isinstance(node.args[0], ast.Name):
            declared = (getattr(sx.unit, "elem_classes", None) or {}).get(node.args[0].id)
        if m is None and declared is not None and not sx.spec_mode:
            # the sidecar declares the language of the elements of this local: checked here, then used for the result
            cname, cre = declared
            coll = sx.deref(args[0], st)
            sepc = sx.str_class(obj, st)
            if isinstance(coll.ty, V.List):
                i = z3.Int("jc_i")
                claim = z3.ForAll([i], z3.Implies(z3.And(i >= 0, i < coll.ty.n(coll.term)), z3.InRe(coll.ty.at(coll.term, i), cre)))
                nonempty = coll.ty.n(coll.term) > 0
            elif isinstance(coll.ty, V.Set):
                x = z3.String("jc_x")
                claim = z3.ForAll([x], z3.Implies(z3.Select(coll.term, x), z3.InRe(x, cre)))
                nonempty = sx.set_nonempty(coll, st)
            else:
                raise Unsupported("join of %r" % (coll.ty,), node)
            if node.args[0].id in (getattr(sx.unit, "refined", None) or {}):
                # data-structure invariant carried by the syntactic discipline (verify.check_refined_discipline) plus the
                # obligation at every add/append: assumed here, not re-proved
                st.assume(claim)
            else:
                sx.oblige(st, "%s/join:%s:elements-in-%s" % (sx.cur_func, node.args[0].id, cname), claim, "hole", node)
            r = sx.fresh(t, "joined", st)
            st.assume(z3.Implies(z3.Not(nonempty), r.term == z3.StringVal("")))
            full = z3.Concat(cre, z3.Star(z3.Concat(sepc, cre)))
            if not sx.feasible(st, z3.Not(nonempty)):
                # the collection is known to be non-empty on this path: the result has at least one element
                sx.with_class(r, full, st)
            else:
                sx.with_class(r, z3.Option(full), st)
                st.assume(z3.Implies(nonempty, z3.InRe(r.term, full)))
            return [R(st, r)]
        if m is None:
            # default: an otherwise unconstrained string (empty for an empty sequence)
            r = sx.fresh(t, "joined", st)
            kind, payload = iter_elems(sx, args[0], st, node)[:2]
            sepc = sx.str_class(obj, st)
            if kind == "list":
                st.assume(z3.Implies(payload.ty.n(payload.term) == 0, r.term == z3.StringVal("")))
                ec = (payload.aux or {}).get("elem_re")
                if ec is not None:
                    # sep.join(xs) with every x in L(ec):  (ec (sep ec)*)?   -- without the '?' when xs is known to be non-empty
                    full = z3.Concat(ec, z3.Star(z3.Concat(sepc, ec)))
                    if not sx.feasible(st, payload.ty.n(payload.term) == 0):
                        sx.with_class(r, full, st)
                    else:
                        sx.with_class(r, z3.Option(full), st)
            elif kind == "conc":
                if not payload:
                    st.assume(r.term == z3.StringVal(""))
                else:
                    cs = [sx.str_class(p, st) for p in payload]
                    cl = cs[0]
                    for c in cs[1:]:
                        cl = z3.Concat(cl, sepc, c)
                    sx.with_class(r, cl, st)
            m = [R(st, r)]
        return m
    if attr in ("split", "format"):
        m = sx.reg.split_model(sx, obj, args, st, node) if attr == "split" else sx.reg.format_model(sx, obj, args, kwargs, st, node)
        if m is None:
            raise Unsupported("str.%s" % attr, node)
        return m
    m = sx.reg.value_method(sx, obj, attr, args, kwargs, st, node)
    if m is not None:
        return m
    if not sx.spec_mode:
        # a str/bytes method nobody modelled: an immutable receiver cannot be changed, the result is a value without contract
        from .sx import Unknown
        sx.uncontracted.append("str.%s (line %s)" % (attr, getattr(node, "lineno", "?")))
        return [R(st, Conc(Unknown("str.%s()" % attr))), R(st.fork(), None, Exc("Exception", exact=False))]
    if sx.unit is not None:
        # (inside a comprehension element / condition of the real code, evaluated without effects): some value
        t_u = V.Opaque("unknown")
        sx.uncontracted.append("str.%s (line %s)" % (attr, getattr(node, "lineno", "?")))
        return ok(st, Val(t_u, z3.Const(fresh_name("unknown"), t_u.sort())))
    raise Unsupported("str method %s" % attr, node)


def int_method(sx, obj, attr, args, kwargs, st, node):
    if attr == "to_bytes":
        ln = z3.simplify(args[0].term)
        if not z3.is_int_value(ln):
            raise Unsupported("to_bytes with symbolic length", node)
        n = ln.as_long()
        x = obj.term
        outs = []
        bad = z3.Or(x < 0, x >= 2 ** (8 * n))
        if not sx.spec_mode and sx.feasible(st, bad):
            outs.append(R(st.fork().assume(bad), None, Exc("OverflowError")))
        if not sx.spec_mode:
            st.assume(z3.Not(bad))
        outs.append(R(st, Val(V.Bytes, sx.reg.be_bytes(sx, x, n, st))))
        return outs
    if attr == "bit_length":
        return ok(st, Val(V.Int, sx.reg.bit_length(sx, obj.term, st)))
    raise Unsupported("int method %s" % attr, node)


def json_method(sx, obj, attr, args, kwargs, st, node):
    B = _B()
    j = B.J()
    k = j["kind"](obj.term)
    want = {"items": B.JDICT, "get": B.JDICT, "pop": B.JDICT, "keys": B.JDICT, "lower": B.JSTR, "startswith": B.JSTR, "split": B.JSTR}.get(attr)
    outs = []
    if want is None:
        outs.append(R(st, None, Exc("AttributeError")))
        return outs
    s_bad = st.fork().assume(k != want)
    if sx.feasible(s_bad):
        outs.append(R(s_bad, None, Exc("AttributeError")))
    s_ok = st.assume(k == want)
    if not sx.feasible(s_ok):
        return outs
    m = sx.reg.json_method(sx, obj, attr, args, kwargs, s_ok, node)
    if m is None and attr == "get" and args and not sx.spec_mode:
        # dict.get(key[, default]) on a JSON object: the member if present, else the default
        key = sx.coerce_str(args[0], s_ok)
        has = j["has"](obj.term, key.term)
        s_has = s_ok.fork().assume(has)
        if sx.feasible(s_has):
            outs.append(R(s_has, Val(V.Json, j["get"](obj.term, key.term))))
        s_not = s_ok.assume(z3.Not(has))
        if sx.feasible(s_not):
            outs.append(R(s_not, args[1] if len(args) > 1 else NONE))
        return outs
    if m is None:
        if not sx.spec_mode:
            from .sx import Unknown as _U3
            sx.uncontracted.append("json value .%s (line %s)" % (attr, getattr(node, "lineno", "?")))
            outs.append(R(s_ok, Conc(_U3("json.%s()" % attr))))
            return outs
        raise Unsupported("json method %s" % attr, node)
    outs.extend(m)
    return outs


# ---------------------------------------------------------------- f-strings, % formatting
def fstring(sx, node, st):
    """f-string -> concatenation; every FormattedValue is a *hole* reported to the registry"""
    parts = [([], st)]
    raises = []
    for v in node.values:
        new = []
        for terms, s in parts:
            if isinstance(v, ast.Constant):
                new.append((terms + [z3.StringVal(v.value)], s))
                continue
            for r in sx.ev(v.value, s):
                if r.exc is not None:
                    raises.append(r)
                    continue
                conv = {-1: None, 114: "r", 115: "s", 97: "a"}[v.conversion]
                spec = None
                if v.format_spec is not None:
                    spec = "".join(c.value for c in v.format_spec.values if isinstance(c, ast.Constant))
                for r2 in format_value(sx, r.val, conv, spec, r.st, v):
                    if r2.exc is not None:
                        raises.append(r2)
                    else:
                        sx.reg.hole(sx, node, v, r2.val, r.val, r2.st)
                        remember_class(r2.val.term, sx.str_class(r2.val, r2.st))
                        new.append((terms + [r2.val.term], r2.st))
        parts = new
    out = list(raises)
    for terms, s in parts:
        if not terms:
            out.append(R(s, V.mk_str("")))
        elif len(terms) == 1:
            out.append(R(s, Val(V.Str, terms[0], {"re": classes_of(sx, terms, s)[0]} if classes_of(sx, terms, s)[0] is not None else None)))
        else:
            cls = classes_of(sx, terms, s)
            r = Val(V.Str, z3.Concat(*terms))
            if all(c is not None for c in cls):
                # derived fact: the concatenation lies in the concatenation of the parts' languages
                if sx.spec_mode:
                    r.aux = {"re": z3.Concat(*cls)}
                else:
                    sx.with_class(r, z3.Concat(*cls), s)
            out.append(R(s, r))
    return out


_term_class = {}


def remember_class(term, cls):
    _term_class[term.get_id()] = (term, cls)


def classes_of(sx, terms, st):
    out = []
    for t in terms:
        hit = _term_class.get(t.get_id())
        if hit is not None and hit[0].eq(t):
            out.append(hit[1])
        else:
            out.append(sx.str_class(Val(V.Str, t), st))
    return out


def format_value(sx, v, conv, spec, st, node):
    if conv == "r":
        return sx.reg.repr_model(sx, v, st, node)
    if spec not in (None, "", "d", "s") and not (spec or "").startswith("."):
        pass
    return _str(sx, [v], {}, st, node)


def percent_format(sx, fmt, arg, st, node):
    f = z3.simplify(fmt.term)
    if not z3.is_string_value(f):
        raise Unsupported("% formatting with symbolic format", node)
    text = f.as_string()
    # z3 escapes non-printables as \u{..}; decode
    import re as _re

    text = _re.sub(r"\\u\{([0-9a-fA-F]+)\}", lambda m: chr(int(m.group(1), 16)), text)
    if isinstance(arg, Conc) and isinstance(arg.v, tuple):
        argv = list(arg.v)
    else:
        a = sx.deref(arg, st)
        if isinstance(a, Val) and isinstance(a.ty, V.Tuple):
            argv = [Val(t, a.ty.field(a.term, i)) for i, t in enumerate(a.ty.items)]
        else:
            argv = [arg]
    pieces = _re.split(r"(%[sdr]|%%)", text)
    terms = []
    ai = 0
    states = [(st, [])]
    for p in pieces:
        if p == "%%":
            states = [(s, ts + [z3.StringVal("%")]) for s, ts in states]
        elif p in ("%s", "%d", "%r"):
            if ai >= len(argv):
                return [R(st, None, Exc("TypeError"))]
            a = argv[ai]
            ai += 1
            new = []
            for s, ts in states:
                a2 = sx.deref(sx.lift(a) if isinstance(a, Conc) else a, s)
                if p == "%d":
                    if isinstance(a2.ty, (V._Int, V._Bool)):
                        val = Val(V.Str, sx.reg.int_to_str(sx.num(a2)))
                        sx.reg.hole(sx, node, None, val, a2, s, label="%d")
                        new.append((s, ts + [val.term]))
                    elif isinstance(a2.ty, V.Opt) and isinstance(a2.ty.inner, V._Int):
                        isn = a2.ty.is_none(a2.term)
                        if sx.feasible(s, isn):
                            return [R(s.fork().assume(isn), None, Exc("TypeError"))]
                        s.assume(z3.Not(isn))
                        val = Val(V.Str, sx.reg.int_to_str(a2.ty.get(a2.term)))
                        sx.reg.hole(sx, node, None, val, a2, s, label="%d")
                        new.append((s, ts + [val.term]))
                    else:
                        return [R(s, None, Exc("TypeError"))]
                elif p == "%s" and isinstance(fmt.ty, V._Bytes):
                    if not isinstance(a2.ty, V._Bytes):
                        return [R(s, None, Exc("TypeError"))]
                    new.append((s, ts + [a2.term]))
                else:
                    rs = _str(sx, [a2], {}, s, node) if p == "%s" else sx.reg.repr_model(sx, a2, s, node)
                    for r in rs:
                        sx.reg.hole(sx, node, None, r.val, a2, r.st, label=p)
                        new.append((r.st, ts + [r.val.term]))
            states = new
        elif p:
            states = [(s, ts + [z3.StringVal(p)]) for s, ts in states]
    if ai != len(argv):
        return [R(st, None, Exc("TypeError"))]
    out = []
    for s, ts in states:
        r = Val(fmt.ty, z3.Concat(*ts) if len(ts) > 1 else (ts[0] if ts else z3.StringVal("")))
        if ts and isinstance(fmt.ty, V._Str):
            cls = classes_of(sx, ts, s)
            if all(c is not None for c in cls):
                # derived fact: the formatted text lies in the concatenation of the parts' languages
                c = z3.Concat(*cls) if len(cls) > 1 else cls[0]
                if sx.spec_mode:
                    r.aux = {"re": c}
                else:
                    sx.with_class(r, c, s)
        out.append(R(s, r))
    return out


# ---------------------------------------------------------------- comprehensions
def comprehension(sx, node, st, kind):
    """
    [elt for x in src if c] over a symbolic list: fresh result with a complete axiomatisation
      cntf(k) = #{ i < k : c(src[i]) } ;  len(res) = cntf(len(src)) ;  c(src[i]) -> res[cntf(i)] = elt(src[i])
    Concrete sources are unrolled.
    """
    if len(node.generators) != 1:
        raise Unsupported("nested comprehension", node)
    gen = node.generators[0]
    outs = []
    for r in sx.ev(gen.iter, st):
        if r.exc is not None:
            outs.append(r)
            continue
        s = r.st
        k, payload = iter_elems(sx, r.val, s, node)[:2]
        if k == "conc":
            vals = []
            cur = [(s, [])]
            for item in payload:
                new = []
                for s2, acc in cur:
                    s2.frames.append({})
                    ao = sx.assign(gen.target, item, s2)
                    for o in ao:
                        if o.kind != "normal":
                            raise Unsupported("comprehension target raises", node)
                        keep = [(o.st, True)]
                        for cond in gen.ifs:
                            nk = []
                            for s3, _ in keep:
                                for bk, s4, exc in sx.branch(cond, s3):
                                    if bk == "raise":
                                        s4.frames.pop()
                                        outs.append(R(s4, None, exc))
                                    elif bk == "T":
                                        nk.append((s4, True))
                                    else:
                                        s4.frames.pop()
                                        new.append((s4, acc))
                            keep = nk
                        for s3, _ in keep:
                            for r3 in sx.ev(node.elt, s3):
                                r3.st.frames.pop()
                                if r3.exc is not None:
                                    outs.append(r3)
                                else:
                                    new.append((r3.st, acc + [r3.val]))
                cur = new
            for s2, acc in cur:
                if kind == "set":
                    outs.extend(_set(sx, [Conc(tuple(acc))], {}, s2, node))
                elif kind == "gen":
                    outs.append(R(s2, Conc(tuple(acc))))
                else:
                    outs.append(R(s2, sx.new_list(acc, s2, node)))
            continue
        if k != "list":
            m = sx.reg.comprehension_over(sx, node, k, payload, s, kind)
            if m is not None:
                outs.extend(m)
                continue
            setv = getattr(payload, "v", None)
            if k == "opaque" and isinstance(setv, Val) and isinstance(setv.ty, V.Set) and kind in ("gen", "list") and isinstance(gen.target, ast.Name):
                # comprehension over a set: the result is SOME sequence of elt(x) for members x (order and multiplicity of set
                # iteration are not modelled).  What is known: every element is elt(x) for an arbitrary member x -- in particular
                # it lies in the language derived for elt at an arbitrary member; the result is empty iff nothing passes the filter.
                x = sx.fresh(setv.ty.elem, "member", s)
                s.frames.append({gen.target.id: x})
                saved_spec = sx.spec_mode
                sx.spec_mode += 1; sx.code_comp += 1
                try:
                    hyp = [z3.Select(setv.term, x.term)] + [sx.truthy(sx.ev1(c, s), s) for c in gen.ifs]
                    s2 = s.fork()
                    for h in hyp:
                        s2.assume(h)
                    elt = sx.ev1(node.elt, s2)
                    elt = sx.deref(sx.lift(elt) if isinstance(elt, Conc) else elt, s2)
                    ec = sx.str_class(elt, s2) if isinstance(elt.ty, V._Str) else None
                finally:
                    sx.spec_mode = saved_spec; sx.code_comp -= 1
                    s.frames.pop()
                if isinstance(elt, (Ref, Func, Conc)) or elt.ty is None:
                    raise Unsupported("comprehension element %r" % (elt,), node)
                rt = V.List(elt.ty)
                res = rt.fresh(fresh_name("setcomp"))
                s.assume(rt.n(res.term) >= 0)
                if not gen.ifs:
                    s.assume((rt.n(res.term) > 0) == sx.set_nonempty(setv, s))
                if ec is not None and (sx.ALLSTR is None or not ec.eq(sx.ALLSTR)):
                    res.aux = dict(res.aux or {})
                    res.aux["elem_re"] = ec
                outs.append(R(s, res) if kind == "gen" else R(s, Ref(rt, s.alloc(res))))
                continue
            if k == "opaque" and hasattr(payload, "next") and kind in ("gen", "list") and isinstance(gen.target, ast.Name) and not sx.spec_mode:
                # comprehension over an iterator known only through its model (dict.values(), cursors, ...): the result is SOME list
                # of elt(x) values -- nothing is assumed about its length or contents, and the iteration may have had any effect the
                # model's next() can have (ghost state made arbitrary).  Obligations that need more than that fail.
                probe = s.fork()
                k0 = sx.fresh(V.Int, "probe_k", probe)
                sample = None
                for r0 in payload.next(sx, probe, k0):
                    if r0.exc is None and r0.val is not None:
                        sample = r0.val
                        break
                if sample is not None:
                    sv = sx.deref(sx.lift(sample) if isinstance(sample, Conc) else sample, probe)
                    if isinstance(sv, Val) and not isinstance(sv, (Ref, Func, Conc)) and sv.ty is not None:
                        x = sx.fresh(sv.ty, "item", s)
                        s.frames.append({gen.target.id: x})
                        saved_spec = sx.spec_mode
                        sx.spec_mode += 1; sx.code_comp += 1
                        try:
                            elt = sx.ev1(node.elt, s)
                            elt = sx.deref(sx.lift(elt) if isinstance(elt, Conc) else elt, s)
                        finally:
                            sx.spec_mode = saved_spec; sx.code_comp -= 1
                            s.frames.pop()
                        if isinstance(elt, Val) and not isinstance(elt, (Ref, Func, Conc)) and elt.ty is not None:
                            rt = V.List(elt.ty)
                            res = rt.fresh(fresh_name("itercomp"))
                            s.assume(rt.n(res.term) >= 0)
                            sx.reg.havoc_ghost_for_unknown_call(sx, s)
                            sx.uncontracted.append("comprehension over %s (line %s)" % (type(payload).__name__, getattr(node, "lineno", "?")))
                            outs.append(R(s, res) if kind == "gen" else R(s, Ref(rt, s.alloc(res))))
                            outs.append(R(s.fork(), None, Exc("Exception", exact=False)))
                            continue
            raise Unsupported("comprehension over %s" % k, node)
        src = payload
        t = src.ty
        # evaluate cond and elt at a symbolic index
        i = z3.Int(fresh_name("ci"))
        s.frames.append({})
        try:
            saved_spec = sx.spec_mode
            sx.spec_mode += 1; sx.code_comp += 1  # element-level partiality is reported by the registry hook below
            ao = sx.assign(gen.target, Val(t.elem, t.at(src.term, i)), s)
            if len(ao) != 1 or ao[0].kind != "normal":
                raise Unsupported("comprehension target forks", node)
            conds = [sx.truthy(sx.ev1(c, s), s) for c in gen.ifs]
            cond = z3.And(*conds) if conds else z3.BoolVal(True)
            elt = sx.ev1(node.elt, s)
            elt = sx.deref(sx.lift(elt) if isinstance(elt, Conc) else elt, s)
        finally:
            sx.spec_mode = saved_spec; sx.code_comp -= 1
            s.frames.pop()
        sx.reg.comprehension_partiality(sx, node, src, i, s)
        n = t.n(src.term)
        if isinstance(elt, (Ref, Func, Conc)) or elt.ty is None:
            raise Unsupported("comprehension element %r" % (elt,), node)
        rt = V.List(elt.ty)
        # rank function of the filter: an order-preserving bijection between the kept source indices and the result
        # positions (first-order characterisation of python's filter semantics; no recursion).  One function per
        # (filter text, source list): the same comprehension in a contract and in the code denotes the same list.
        ckey = (ast.unparse(gen.target), " and ".join(ast.unparse(c) for c in gen.ifs), ast.unparse(node.elt), src.term.sexpr())
        cache = sx.reg.__dict__.setdefault("_cntf_cache", {})
        if ckey in cache:
            cntf, res, i0 = cache[ckey]
            cond = z3.substitute(cond, (i, i0))
            elt = Val(elt.ty, z3.substitute(elt.term, (i, i0)))
            i = i0
        else:
            cntf = z3.Function(fresh_name("rank"), z3.IntSort(), z3.IntSort())
            res = rt.fresh(fresh_name("comp"))
            cache[ckey] = (cntf, res, i)
        s.assume(rt.n(res.term) >= 0)
        s.assume(rt.n(res.term) <= n)
        s.assume(z3.ForAll([i], z3.Implies(z3.And(i >= 0, i < n, cond), z3.And(rt.at(res.term, cntf(i)) == elt.term, cntf(i) >= 0, cntf(i) < rt.n(res.term)))))
        jx = z3.Int(fresh_name("cj"))
        s.assume(z3.ForAll([jx], z3.Implies(z3.And(jx >= 0, jx < rt.n(res.term)),
                                             z3.Exists([i], z3.And(i >= 0, i < n, cond, cntf(i) == jx, rt.at(res.term, jx) == elt.term)))))
        i2 = z3.Int(fresh_name("ci2"))
        cond2 = z3.substitute(cond, (i, i2))
        s.assume(z3.ForAll([i, i2], z3.Implies(z3.And(i >= 0, i < i2, i2 < n, cond, cond2), cntf(i) < cntf(i2))))
        s.assume((rt.n(res.term) > 0) == z3.Exists([i], z3.And(i >= 0, i < n, cond)))
        if not gen.ifs:
            # no filter: one result element per source element (a ground consequence of the axioms above, stated for the
            # quantifier-free feasibility checks)
            s.assume(rt.n(res.term) == n)
        if isinstance(elt.ty, V._Str):
            ec = sx.str_class(elt, s)
            if sx.ALLSTR is None or not ec.eq(sx.ALLSTR):
                res.aux = dict(res.aux or {})
                res.aux["elem_re"] = ec
        sx.reg.note_comprehension(sx, node, src, res, i, cond, elt, cntf, s)
        if kind == "set":
            outs.extend(_set(sx, [res], {}, s, node))
        elif kind == "gen":
            outs.append(R(s, res))
        else:
            outs.append(R(s, Ref(rt, s.alloc(res))))
    return outs


def any_all_comprehension(sx, node, st):
    """any(e for x in xs if c) / all(...) over a symbolic list -> one quantifier (no intermediate list)"""
    is_all = node.func.id == "all"
    comp = node.args[0]
    gen = comp.generators[0]
    rs = sx.ev(gen.iter, st)
    if len(rs) != 1 or rs[0].exc is not None:
        return None
    s = rs[0].st
    src = sx.deref(rs[0].val, s)
    if isinstance(src, Val) and isinstance(src.ty, V._Json):
        Bm = _B()
        jj = Bm.J()
        if not sx.feasible(s, jj["kind"](src.term) != Bm.JSTR):
            src = Val(V.Str, jj["str"](src.term))  # a JSON value known to be a string on this path
    if (isinstance(src, Val) and isinstance(src.ty, V._Str) and not gen.ifs and isinstance(gen.target, ast.Name)
            and isinstance(comp.elt, ast.Compare) and len(comp.elt.ops) == 1
            and isinstance(comp.elt.left, ast.Name) and comp.elt.left.id == gen.target.id
            and isinstance(comp.elt.comparators[0], ast.Constant) and isinstance(comp.elt.comparators[0].value, str)
            and comp.elt.comparators[0].value):
        # character-class test over the characters of a string with a literal class:
        #   all(c in LIT for c in s)  ==  not any(c not in LIT for c in s)  ==  s in (c1|c2|...)*
        lit = comp.elt.comparators[0].value
        # canonical form: maximal runs of consecutive code points become ranges, in code-point order ('0123456789abcdef' -> [0-9]|[a-f])
        chars = sorted(set(lit))
        runs = []
        for ch in chars:
            if runs and ord(ch) == ord(runs[-1][1]) + 1:
                runs[-1][1] = ch
            else:
                runs.append([ch, ch])
        parts = [z3.Range(a, b) if a != b else z3.Re(z3.StringVal(a)) for a, b in runs]
        cls = z3.Star(z3.Union(*parts)) if len(parts) > 1 else z3.Star(parts[0])
        inside = z3.InRe(src.term, cls)
        op = comp.elt.ops[0]
        if is_all and isinstance(op, ast.In):
            return [R(s, Val(V.Bool, inside))]
        if not is_all and isinstance(op, ast.NotIn):
            return [R(s, Val(V.Bool, z3.Not(inside)))]
    kind, payload = iter_elems(sx, rs[0].val, s, node)[:2]
    if kind != "list":
        return None
    t = payload.ty
    i = z3.Int(fresh_name("qi"))
    s.frames.append({})
    saved = sx.spec_mode
    sx.spec_mode += 1; sx.code_comp += 1
    try:
        ao = sx.assign(gen.target, Val(t.elem, t.at(payload.term, i)), s)
        if len(ao) != 1 or ao[0].kind != "normal":
            raise Unsupported("comprehension target forks", node)
        conds = [sx.truthy(sx.ev1(c, s), s) for c in gen.ifs]
        body = sx.truthy(sx.ev1(comp.elt, s), s)
    finally:
        sx.spec_mode = saved; sx.code_comp -= 1
        s.frames.pop()
    rng = z3.And(i >= 0, i < t.n(payload.term), *conds)
    q = z3.ForAll([i], z3.Implies(rng, body)) if is_all else z3.Exists([i], z3.And(rng, body))
    return [R(s, Val(V.Bool, q))]


# ---------------------------------------------------------------- for loops
class ListIter:
    def __init__(self, seq):
        self.seq = seq

    def spec_env(self, st):
        return {}

    def bound(self, st):
        return self.seq.ty.n(self.seq.term)

    def has_next(self, st, k):
        return k.term < self.seq.ty.n(self.seq.term)

    def bind(self, sx, stmt, st, k):
        t = self.seq.ty
        return sx.assign(stmt.target, Val(t.elem, t.at(self.seq.term, k.term)), st)


class JsonIter:
    """iteration over an opaque JSON array (items) / object (keys) / string (characters)"""

    def __init__(self, jv):
        self.jv = jv

    def spec_env(self, st):
        return {}

    def bound(self, st):
        return _B().J()["len"](self.jv.term)

    def has_next(self, st, k):
        return k.term < _B().J()["len"](self.jv.term)

    def bind(self, sx, stmt, st, k):
        B = _B()
        j = B.J()
        it = j["item"](self.jv.term, k.term)
        for f in B.json_facts(it):
            st.assume(f)
        kd = j["kind"](self.jv.term)
        st.assume(z3.Implies(z3.Or(kd == B.JDICT, kd == B.JSTR), j["kind"](it) == B.JSTR))
        return sx.assign(stmt.target, Val(V.Json, it), st)


class OpaqueIter:
    """iteration over an opaque iterable with a contract: unknown number of elements"""

    def __init__(self, spec):
        self.spec = spec  # object with .next(sx, st, k) -> list of R (element or raise)
        self.more = None

    def spec_env(self, st):
        return {}

    def bound(self, st):
        return None

    def has_next(self, st, k):
        return z3.Bool(fresh_name("hasnext"))

    def on_exit(self, sx, st):
        # the iterable's contract may say what is known once it is exhausted (e.g. every element was yielded)
        if hasattr(self.spec, "exhausted"):
            self.spec.exhausted(sx, st)

    def bind(self, sx, stmt, st, k):
        outs = []
        for r in self.spec.next(sx, st, k):
            if r.exc is not None:
                outs.append(Out("raise", r.st, r.exc))
            else:
                outs.extend(sx.assign(stmt.target, r.val, r.st))
        return outs


def for_loop(sx, stmt, itv, st):
    kind_payload = iter_elems(sx, itv, st, stmt)
    kind, payload = kind_payload[0], kind_payload[1]
    spec = sx.loop_spec(stmt)
    if kind == "conc":
        # unroll
        outs = []
        cur = [st]
        for item in payload:
            nxt = []
            for s in cur:
                for ao in sx.assign(stmt.target, item, s):
                    if ao.kind != "normal":
                        outs.append(ao)
                        continue
                    for bo in sx.ex_block(stmt.body, ao.st):
                        if bo.kind in ("normal", "continue"):
                            nxt.append(bo.st)
                        elif bo.kind == "break":
                            outs.append(Out("normal", bo.st))
                        else:
                            outs.append(bo)
            cur = nxt
        for s in cur:
            if stmt.orelse:
                outs.extend(sx.ex_block(stmt.orelse, s))
            else:
                outs.append(Out("normal", s))
        return outs
    if kind == "list":
        return sx.run_loop(stmt, st, spec, "for", ListIter(payload))
    if kind == "opaque":
        return sx.run_loop(stmt, st, spec, "for", OpaqueIter(payload))
    if kind == "json":
        m = sx.reg.json_iter(sx, payload, st, stmt)
        if m is None:
            B = _B()
            j = B.J()
            kd = j["kind"](payload.term)
            outs = []
            bad = z3.Not(z3.Or(kd == B.JLIST, kd == B.JSTR, kd == B.JDICT))
            if sx.feasible(st, bad):
                outs.append(Out("raise", st.fork().assume(bad), Exc("TypeError")))
            st.assume(z3.Not(bad))
            outs.extend(sx.run_loop(stmt, st, spec, "for", JsonIter(payload)))
            return outs
        return sx.run_loop(stmt, st, spec, "for", OpaqueIter(m))
    raise Unsupported("for over %s" % kind, stmt)


def star_call(sx, node, st):
    for h in getattr(sx.reg, "star_call_hooks", []):
        m = h(sx, node, st)
        if m is not None:
            return m
    m = sx.reg.star_call(sx, node, st)
    if m is not None:
        return m
    # *args / **kwargs whose values are known python-level tuples / dicts: spliced
    outs = []
    for rf in sx.ev(node.func, st):
        if rf.exc is not None:
            outs.append(rf)
            continue
        argnodes = [a.value if isinstance(a, ast.Starred) else a for a in node.args] + [k.value for k in node.keywords]
        results, raises = sx.ev_seq(argnodes, rf.st)
        outs.extend(raises)
        for vals, s in results:
            args, kwargs = [], {}
            from .sx import Unknown
            if isinstance(rf.val, Conc) and isinstance(rf.val.v, Unknown):
                # a callee without contract: how the arguments are spliced is irrelevant, anything may happen
                outs.extend(sx.call(rf.val, list(vals), {}, s, node))
                continue
            for a, v in zip(node.args, vals[: len(node.args)]):
                if isinstance(a, ast.Starred):
                    if isinstance(v, Conc) and isinstance(v.v, tuple):
                        args.extend(v.v)
                    else:
                        raise Unsupported("*args with a symbolic sequence: %s" % ast.unparse(node.func), node)
                else:
                    args.append(v)
            for k, v in zip(node.keywords, vals[len(node.args):]):
                if k.arg is None:
                    if isinstance(v, Conc) and isinstance(v.v, dict):
                        kwargs.update(v.v)
                    else:
                        raise Unsupported("**kwargs with a symbolic mapping: %s" % ast.unparse(node.func), node)
                else:
                    kwargs[k.arg] = v
            outs.extend(sx.call(rf.val, args, kwargs, s, node))
    return outs
