"""
pyvc.verify -- generate the obligations of one unit from the current /repo source and discharge them.
"""
import ast
import hashlib
import os
import subprocess
import tempfile
import time
import traceback
import z3

from . import vals as V
from .vals import Val, Ref, Func, Conc, NONE
from .sx import SX, State, R, Out, Exc, Unsupported, fresh_name, Obligation
from .registry import load_source, find_function, REPO


def src_segment(text, node):
    lines = text.splitlines()
    seg = "\n".join(lines[node.lineno - 1: node.end_lineno])
    return seg


def make_param(sx, reg, name, ty, st):
    if isinstance(ty, V.ObjT):
        return make_object(sx, reg, ty.cls, st, name)
    if isinstance(ty, V.List) or isinstance(ty, V.Set) or isinstance(ty, V.Dict):
        v = sx.fresh(ty, name, st)
        if getattr(ty, "immutable", False):
            return v
        return Ref(ty, st.alloc(v))
    if callable(ty) and not isinstance(ty, V.Ty):
        return ty(sx, st, name)
    return sx.fresh(ty, name, st)


def make_object(sx, reg, cls, st, name="obj"):
    decl = {}
    for c in reversed(reg.mro(cls)):
        decl.update(reg.classes.get(c, {}))
    attrs = {"__class__": Conc(cls), "__frozen__": tuple(decl.get("__frozen__", ()))}
    cell = st.alloc(attrs)
    for a, ty in decl.items():
        if a.startswith("__"):
            continue
        attrs[a] = make_param(sx, reg, "%s_%s" % (name, a), ty, st)
    return Ref(V.ObjT(cls), cell)


def generate(unit, reg, canaries=True, assume_not=(), assume=None):
    """symbolically execute the unit; returns (sx, info)"""
    text, tree = load_source(unit.path)
    fdef = find_function(tree, unit.qual)
    if fdef is None:
        raise Unsupported("function %s not found in %s" % (unit.qual, unit.path))
    seg = src_segment(text, fdef)
    unit.src_info = {
        "file": unit.path, "function": unit.qual, "first_line": fdef.lineno, "last_line": fdef.end_lineno,
        "sha256": hashlib.sha256(seg.encode()).hexdigest(),
    }
    sx = SX(unit, reg)
    reg.cur_unit = unit
    sx.cur_func = "%s:%s" % (os.path.basename(unit.path)[:-3], unit.qual)
    loops = sorted([n for n in ast.walk(fdef) if isinstance(n, (ast.For, ast.AsyncFor, ast.While))], key=lambda n: (n.lineno, n.col_offset))
    sx.loop_ids = {id(n): i + 1 for i, n in enumerate(loops)}
    con = unit.contract
    st = State()
    params = {}
    for p, ty in con.params.items():
        params[p] = make_param(sx, reg, p, ty, st)
    st.env.update(params)
    sx.entry_params = params
    sx.keep_states = True
    # python-level defaults for parameters not in the contract
    a = fdef.args
    names = [x.arg for x in a.posonlyargs + a.args + a.kwonlyargs]
    # parameters with a default that the contract does not mention: python evaluates the default ONCE, when the
    # function is defined -- at call time it is some value of that expression's type, unrelated to the current state
    pos = a.posonlyargs + a.args
    dmap = {p.arg: d for p, d in zip(pos[len(pos) - len(a.defaults):], a.defaults)}
    dmap.update({p.arg: d for p, d in zip(a.kwonlyargs, a.kw_defaults) if d is not None})
    for n in names:
        if n not in st.env and n in getattr(unit, "param_defaults", {}):
            st.env[n] = unit.param_defaults[n](sx, st)
        if n not in st.env and n in dmap:
            tmp = State()
            tmp.ghost = dict(st.ghost)
            try:
                dv = sx.ev1(dmap[n], tmp)
            except Unsupported:
                dv = None
            if isinstance(dv, Conc):
                try:
                    dv = sx.lift(dv)
                except Unsupported:
                    dv = None
            if isinstance(dv, Val) and not isinstance(dv, (Ref, Func, Conc)) and dv.ty is not None:
                st.env[n] = dv if isinstance(dv.ty, V._None) or z3.is_const(dv.term) and dv.term.decl().kind() != z3.Z3_OP_UNINTERPRETED else sx.fresh(dv.ty, n + "_default", st)
        if n not in st.env:
            raise Unsupported("parameter %s of %s has no declared type in the sidecar" % (n, unit.qual))
    if unit.ghost_init:
        unit.ghost_init(sx, st)
    if unit.setup:
        unit.setup(sx, st, params)
    for (name, src) in con.requires:
        st.assume(sx.eval_spec(src, st))
    # known-finding split: the main pass excludes the listed input classes, a finding pass selects one
    for w in assume_not:
        st.assume(z3.Not(sx.eval_spec(w, st)))
    if assume:
        st.assume(sx.eval_spec(assume, st))
    sx.cover(st, "%s/cover:requires" % sx.cur_func)
    entry = st.fork()
    st.ghost["__entry__"] = Conc(entry)
    is_gen = any(isinstance(n, (ast.Yield, ast.YieldFrom)) for n in walk_own(fdef))
    if is_gen or unit.yield_ensures:
        yt = getattr(unit, "yield_type", None)
        if yt is not None:
            lt = V.List(yt)
            st.ghost["yielded"] = Val(lt, lt.empty())

        def yhook(sx2, val, s, node, is_from):
            if yt is not None and not is_from:
                lt2 = V.List(yt)
                cur = s.ghost["yielded"]
                vv = sx2.coerce(val, yt, s)
                s.ghost["yielded"] = Val(lt2, lt2.mk(z3.Store(lt2.arr(cur.term), lt2.n(cur.term), vv.term), lt2.n(cur.term) + 1))
            for (name, src) in unit.yield_ensures:
                c = sx2.eval_spec(src, s, {"yielded": val})
                sx2.oblige(s, "%s/yield:%s" % (sx2.cur_func, name), c, "yield", node)
            if unit.path_hooks and "yield" in unit.path_hooks:
                unit.path_hooks["yield"](sx2, val, s, node)
            return [Out("normal", s)]

        sx.yield_hook = yhook
    outs = sx.ex_block(fdef.body, st)
    nret = nraise = 0
    for o in outs:
        s = o.st
        if o.kind in ("return", "normal"):
            nret += 1
            res = o.val if o.kind == "return" else NONE
            sx.cover(s, "%s/cover:return@%d" % (sx.cur_func, nret))
            # parameter names in postconditions denote the arguments (python code may rebind the local names)
            extra = dict(params)
            extra["result"] = res
            # locals a postcondition may mention under a guard: arbitrary when unbound on this path
            for nm, ty in (getattr(unit, "post_locals", None) or {}).items():
                if nm not in s.env:
                    extra[nm] = sx.fresh(ty, nm, s)
            if unit.path_hooks and "return" in unit.path_hooks:
                unit.path_hooks["return"](sx, res, s)
            for (name, src) in con.ensures:
                c = sx.eval_spec(src, s, extra)
                sx.oblige(s, "%s/post:%s" % (sx.cur_func, name), c, "post", fdef)
            if canaries:
                for (name, src) in unit.canaries:
                    c = sx.eval_spec(src, s, extra)
                    sx.obligations.append(Obligation("%s/canary:%s" % (sx.cur_func, name), "canary", list(s.pc), c, fdef.lineno))
        elif o.kind == "raise":
            nraise += 1
            e = o.val
            allowed = None
            for ecls, cond in con.raises.items():
                base = ecls.rstrip("+")
                from .sx import is_subclass

                if is_subclass(e.cls, base) and (e.exact or ecls.endswith("+") or True):
                    allowed = (ecls, cond)
                    break
            if unit.path_hooks and "raise" in unit.path_hooks:
                unit.path_hooks["raise"](sx, e, s)
            if allowed is None:
                sx.oblige(s, "%s/exc:%s:escapes" % (sx.cur_func, e.cls), z3.BoolVal(False), "exc", fdef,
                          note="exception %r escapes but the contract does not allow it" % (e,))
            else:
                ecls, cond = allowed
                if cond is not True:
                    # evaluated in the state at the raise (old(...) reaches the entry state)
                    c = sx.eval_spec(cond, s, dict(params))
                    sx.oblige(s, "%s/exc:%s:only-if" % (sx.cur_func, ecls), c, "exc", fdef)
                for (name, src) in con.exc_ensures.get(ecls, []):
                    c = sx.eval_spec(src, s, dict(params))
                    sx.oblige(s, "%s/excpost:%s:%s" % (sx.cur_func, ecls, name), c, "exc", fdef)
        else:
            raise Unsupported("%s escapes function body" % o.kind)
    return sx, {"paths": len(outs), "returns": nret, "raises": nraise}


def walk_own(fdef):
    """walk a function body without descending into nested function definitions"""
    stack = list(fdef.body)
    while stack:
        n = stack.pop()
        yield n
        for ch in ast.iter_child_nodes(n):
            if not isinstance(ch, (ast.FunctionDef, ast.AsyncFunctionDef, ast.Lambda)):
                stack.append(ch)


# ------------------------------------------------------------------------- discharge
def has_strings(exprs):
    txt = " ".join(e.sexpr() for e in exprs[:50])
    return "String" in txt or "str." in txt or "re." in txt


def check_z3(hyps, neg_claim, timeout_ms):
    s = z3.Solver()
    s.set("timeout", timeout_ms)
    for h in hyps:
        s.add(h)
    s.add(neg_claim)
    t0 = time.time()
    r = s.check()
    dt = time.time() - t0
    return r, s, dt


def check_cvc5(solver, timeout_ms, want_model=False):
    try:
        smt = solver.to_smt2()
    except Exception as e:  # noqa
        return "unknown", "to_smt2 failed: %s" % e
    smt = "(set-logic ALL)\n" + smt.replace("(check-sat)", "(check-sat)")
    with tempfile.NamedTemporaryFile("w", suffix=".smt2", delete=False, dir=os.environ.get("PYVC_TMP", None)) as f:
        f.write(smt)
        path = f.name
    try:
        cmd = ["/usr/bin/cvc5", "--strings-exp", "--tlimit=%d" % timeout_ms, path]
        p = subprocess.run(cmd, capture_output=True, text=True, timeout=timeout_ms / 1000 + 5)
        out = p.stdout.strip().splitlines()
        res = out[0] if out else "unknown"
        return res, (p.stderr or "")[:300]
    except subprocess.TimeoutExpired:
        return "unknown", "cvc5 timeout"
    finally:
        os.unlink(path)


def _collect_len_terms(e, acc, seen):
    if e.get_id() in seen:
        return
    seen.add(e.get_id())
    if z3.is_quantifier(e):
        _collect_len_terms(e.body(), acc, seen)
        return
    if z3.is_app(e):
        d = e.decl()
        if d.name().startswith("len") and e.num_args() == 1 and str(e.arg(0).sort()).startswith("List_"):
            acc.append(e)
        if d.name() == "str.len":
            acc.append(e)
        for ch in e.children():
            _collect_len_terms(ch, acc, seen)


def _has_free_var(e, cache):
    k = e.get_id()
    if k in cache:
        return cache[k]
    if z3.is_var(e):
        r = True
    elif z3.is_quantifier(e):
        r = _has_free_var(e.body(), cache)  # conservative
    else:
        r = any(_has_free_var(c, cache) for c in e.children())
    cache[k] = r
    return r


def expand_quantifiers(e, N, memo):
    """replace quantifiers over Int variables by their instances in [-1, N+1] (exact when the
    quantified variable is range-guarded by a length <= N, which all engine-generated ones are)"""
    k = e.get_id()
    if k in memo:
        return memo[k][1]
    if z3.is_quantifier(e):
        nv = e.num_vars()
        if (e.is_forall() or e.is_exists()) and all(e.var_sort(i) == z3.IntSort() for i in range(nv)):
            body = e.body()
            import itertools as _it

            insts = []
            for combo in _it.product(range(-1, N + 2), repeat=nv):
                vals = [z3.IntVal(c) for c in combo]
                insts.append(expand_quantifiers(z3.substitute_vars(body, *vals), N, memo))
            r = z3.And(*insts) if e.is_forall() else z3.Or(*insts)
        else:
            r = e
    elif z3.is_app(e) and e.num_args() > 0:
        ch = [expand_quantifiers(c, N, memo) for c in e.children()]
        try:
            r = e.decl()(*ch)
        except Exception:  # noqa
            r = e
    else:
        r = e
    memo[k] = (e, r)  # keep `e` alive: z3 reuses ast ids of collected terms
    return r


def bounded_refute(ob, timeout_ms=5000, bounds=(1, 2, 3)):
    """search for a concrete counter-model with all list lengths <= N and bounded quantifiers expanded"""
    for N in bounds:
        memo = {}
        fs = [expand_quantifiers(h, N, memo) for h in ob.hyps] + [expand_quantifiers(z3.Not(ob.claim), N, memo)]
        lens, seen, cache = [], set(), {}
        for f in ob.hyps + [ob.claim]:
            _collect_len_terms(f, lens, seen)
        s = z3.Solver()
        s.set("timeout", timeout_ms)
        for f in fs:
            s.add(f)
        for t in lens:
            if not _has_free_var(t, cache) and t.decl().name().startswith("len"):
                s.add(t <= N)
        r = s.check()
        if r == z3.sat:
            return N, s.model()
        if r == z3.unknown and has_strings(fs):
            # string constraints: cvc5 decides many quantifier-free queries z3's sequence solver leaves open
            r2, _ = check_cvc5(s, timeout_ms)
            if r2 == "sat":
                return N, None
    return None, None


_incl_cache = {}
_qc = {}


def _is_quantified(e):
    k = e.get_id()
    hit = _qc.get(k)
    if hit is not None and hit[0].eq(e):
        return hit[1]
    r = False
    stack, seen = [e], set()
    while stack:
        x = stack.pop()
        if x.get_id() in seen:
            continue
        seen.add(x.get_id())
        if z3.is_quantifier(x):
            r = True
            break
        stack.extend(x.children())
    _qc[k] = (e, r)
    return r


def language_inclusion(ob, timeout_ms=10000):
    """claim  InRe(t, B)  with hypotheses  InRe(t, A1), InRe(t, A2), ...:  decided as the pure regular-language question
    A1 & A2 & ... subset-of B on a fresh string (z3 answers these in milliseconds; inside the full path condition the same
    question can time out).  Returns True if the claim is established this way."""
    c = ob.claim
    while z3.is_app(c) and c.decl().kind() == z3.Z3_OP_IMPLIES and z3.is_true(z3.simplify(c.arg(0))):
        c = c.arg(1)
    if not (z3.is_app(c) and c.decl().kind() == z3.Z3_OP_SEQ_IN_RE):
        return False
    t, B = c.arg(0), c.arg(1)
    As = []

    def scan(e):
        if z3.is_and(e):
            for ch in e.children():
                scan(ch)
        elif z3.is_app(e) and e.decl().kind() == z3.Z3_OP_SEQ_IN_RE and e.arg(0).eq(t):
            As.append(e.arg(1))
    for h in ob.hyps:
        scan(h)
    if not As:
        return False
    key = (tuple(a.sexpr() for a in As), B.sexpr())
    if key not in _incl_cache:
        x = z3.String("incl_x")
        s = z3.Solver()
        s.set("timeout", timeout_ms)
        for a in As:
            s.add(z3.InRe(x, a))
        s.add(z3.Not(z3.InRe(x, B)))
        _incl_cache[key] = (s.check() == z3.unsat)
    return _incl_cache[key]


def discharge(ob, timeout_ms=10000, use_cvc5=True, both=False):
    t_in = time.time()
    try:
        if language_inclusion(ob, timeout_ms):
            ob.status, ob.backend, ob.seconds = "discharged", "z3 (regular-language inclusion)", time.time() - t_in
            return ob
    except z3.Z3Exception:
        pass
    neg = z3.Not(ob.claim)
    # first without the quantified hypotheses (fewer hypotheses: `unsat` is still a proof, and usually a much faster one)
    ground = [h for h in ob.hyps if not _is_quantified(h)]
    if len(ground) < len(ob.hyps):
        r0, s0, dt0 = check_z3(ground, neg, max(1000, timeout_ms // 3))
        if r0 == z3.unsat:
            ob.status, ob.backend, ob.seconds = "discharged", "z3", dt0
            return ob
    r, s, dt = check_z3(ob.hyps, neg, timeout_ms)
    ob.seconds = dt
    ob.backend = "z3"
    if r == z3.unsat:
        ob.status = "discharged"
        if both and use_cvc5:
            r2, _ = check_cvc5(s, timeout_ms)
            ob.backend = "z3+cvc5" if r2 == "unsat" else "z3 (cvc5: %s)" % r2
            if r2 == "sat":
                ob.status = "disagree"
    elif r == z3.sat:
        ob.status = "refuted"
        ob.model = s.model()
        # prefer a small counter-model (short lists / strings) for replay
        try:
            lens, seen, cache = [], set(), {}
            for f in ob.hyps + [ob.claim]:
                _collect_len_terms(f, lens, seen)
            lens = [t for t in lens if not _has_free_var(t, cache)]
            for bound in (2, 4):
                s.push()
                for t in lens:
                    if t.decl().name().startswith("len"):
                        s.add(t <= bound)
                s.set("timeout", 2000)
                if s.check() == z3.sat:
                    ob.model = s.model()
                    s.pop()
                    break
                s.pop()
        except Exception:  # noqa
            pass
    else:
        ob.reason = s.reason_unknown()
        t0 = time.time()
        N, m = bounded_refute(ob)
        ob.seconds += time.time() - t0
        if N is not None:
            ob.status = "refuted"
            ob.backend = ("z3" if m is not None else "cvc5") + " (bounded model search, lengths<=%d)" % N
            ob.model = m
            return ob
        if use_cvc5 and "spec_" not in s.sexpr()[:200000]:
            t0 = time.time()
            r2, err = check_cvc5(s, timeout_ms)
            ob.seconds += time.time() - t0
            if r2 == "unsat":
                ob.status = "discharged"
                ob.backend = "cvc5"
            elif r2 == "sat":
                ob.status = "refuted"
                ob.backend = "cvc5"
                ob.model = None
            else:
                ob.status = "unknown"
                ob.reason += " | cvc5: %s %s" % (r2, err)
        else:
            ob.status = "unknown"
    return ob


# ------------------------------------------------------------------------- model decoding
def decode(model, ty, term, depth=0):
    """z3 model value -> python value (best effort, for replay files)"""
    try:
        if isinstance(ty, V._Int):
            return model.eval(term, model_completion=True).as_long()
        if isinstance(ty, V._Bool):
            return z3.is_true(model.eval(term, model_completion=True))
        if isinstance(ty, V._Real):
            v = model.eval(term, model_completion=True)
            if z3.is_algebraic_value(v):
                v = v.approx(20)
            return float(v.numerator_as_long()) / float(v.denominator_as_long())
        if isinstance(ty, (V._Str, V._Bytes)):
            v = model.eval(term, model_completion=True)
            s = v.as_string()
            import re

            s = re.sub(r"\\u\{([0-9a-fA-F]+)\}", lambda m: chr(int(m.group(1), 16)), s)
            if isinstance(ty, V._Bytes):
                return bytes(ord(c) & 0xFF for c in s)
            return s
        if isinstance(ty, V.Opt):
            if z3.is_true(model.eval(ty.is_none(term), model_completion=True)):
                return None
            return decode(model, ty.inner, ty.get(term), depth + 1)
        if isinstance(ty, V.Tuple):
            return tuple(decode(model, t, ty.field(term, i), depth + 1) for i, t in enumerate(ty.items))
        if isinstance(ty, V.List):
            n = model.eval(ty.n(term), model_completion=True).as_long()
            n = max(0, min(n, 12))
            return [decode(model, ty.elem, ty.at(term, i), depth + 1) for i in range(n)]
        if isinstance(ty, V.Rec):
            return {f: decode(model, t, ty.get(term, f), depth + 1) for f, t in ty.fields.items()}
        return str(model.eval(term, model_completion=True))
    except Exception as e:  # noqa
        return "<undecodable: %s>" % e


def decode_state(model, sx, st, names=None):
    out = {}
    for n, v in st.env.items():
        if n.startswith("__"):
            continue
        out[n] = decode_any(model, sx, st, v)
    return out


def decode_any(model, sx, st, v, depth=0):
    if depth > 3:
        return "..."
    if isinstance(v, Ref):
        c = st.heap.get(v.cell)
        if isinstance(c, dict):
            return {a: decode_any(model, sx, st, x, depth + 1) for a, x in c.items() if not a.startswith("__")}
        if isinstance(c, tuple):
            return []
        return decode_any(model, sx, st, c, depth + 1)
    if isinstance(v, Conc):
        if isinstance(v.v, (int, str, float, bool, bytes, type(None))):
            return v.v
        if isinstance(v.v, tuple):
            return [decode_any(model, sx, st, x, depth + 1) if isinstance(x, Val) else repr(x) for x in v.v]
        if isinstance(v.v, dict):
            return {k: decode_any(model, sx, st, x, depth + 1) if isinstance(x, Val) else repr(x) for k, x in v.v.items()}
        return repr(v.v)
    if isinstance(v, Func):
        return repr(v)
    if v.ty is None or isinstance(v.ty, V._None):
        return None
    return decode(model, v.ty, v.term)


# ------------------------------------------------------------------------- run one unit (worker)
def run_unit(unit_key, sidecar_modules, tier="quick", timeout_ms=None, pass_name="main", assume_not=(), assume=None, only_prop=None, tolerate=()):
    """executed in a worker process: returns a picklable report"""
    import importlib

    t0 = time.time()
    rep = {"unit": unit_key, "obligations": [], "error": None, "src": None, "covers": [], "paths": None}
    try:
        from . import registry as RG

        reg = None
        for m in sidecar_modules:
            mod = importlib.import_module(m)
            reg = mod.REG
        if unit_key.startswith("lemma::"):
            lem = reg.lemmas[unit_key[7:]]
            sx = SX(None, reg)
            sx.cur_func = unit_key
            reg.cur_unit = None
            sx.obligations = lem.proof_obligations(sx)
            rep["src"] = {"file": "(spec lemma, /verif)", "function": unit_key}
            rep["props"] = lem.props
            unit = type("U", (), {"props": lem.props, "contract": None})()
        else:
            unit = reg.units[unit_key]
            sx, info = generate(unit, reg, assume_not=assume_not, assume=assume)
            rep["src"] = unit.src_info
            rep["paths"] = info
            rep["props"] = unit.props
        tmo = timeout_ms or (10000 if tier == "quick" else 60000)
        only = os.environ.get("PYVC_ONLY")
        # per-obligation property tags (a unit may serve several properties through different clauses)
        for ob in sx.obligations:
            for (pat, pr) in getattr(unit, "obligation_props", None) or ():
                if pat in ob.name:
                    ob.props = list(pr)
                    break
        sx.obligations = [ob for ob in sx.obligations if only_prop is None or only_prop in (ob.props or unit.props) or ob.kind == "canary"]
        refuted_canaries = set()
        for ob in sx.obligations:
            if only and only not in ob.name:
                continue
            if ob.kind == "canary":
                if ob.name in refuted_canaries:
                    continue  # one refuting path is enough for a must-fail canary
                # vacuity guard: the path must be satisfiable together with the negated canary; quantified hypotheses are
                # left out for this one query (they only make `sat` answers harder to obtain, never easier)
                r, s_, dt = check_z3([h for h in ob.hyps if not sx._quantified(h)], z3.Not(ob.claim), 2000)
                ob.seconds, ob.backend = dt, "z3"
                if r == z3.sat:
                    ob.status = "refuted"
                    refuted_canaries.add(ob.name)
                else:
                    ob.status = "discharged" if r == z3.unsat else "unknown"
                continue
            if any(p in ob.name for p in tolerate):
                # obligation of a listed known finding: one short attempt only (its witness decides the KNOWN-FINDING line)
                r, s_, dt = check_z3(ob.hyps, z3.Not(ob.claim), 2000)
                ob.seconds, ob.backend = dt, "z3"
                ob.status = "discharged" if r == z3.unsat else ("refuted" if r == z3.sat else "unknown")
                continue
            discharge(ob, tmo, both=(tier == "thorough"))
        # canaries nobody refuted quickly: try harder (bounded model search)
        for ob in sx.obligations:
            if ob.kind == "canary" and ob.name not in refuted_canaries and ob.status == "unknown" and not (only and only not in ob.name):
                discharge(ob, 5000, use_cvc5=False)
                if ob.status == "refuted":
                    refuted_canaries.add(ob.name)
            d = {
                "name": ob.name, "kind": ob.kind, "status": ob.status, "backend": ob.backend, "seconds": round(ob.seconds, 3),
                "line": ob.loc, "note": ob.note, "reason": ob.reason, "props": ob.props or unit.props,
            }
            if ob.status == "refuted" and ob.model is not None:
                try:
                    d["model_text"] = model_summary(ob.model)
                    stt = getattr(ob, "st", None)
                    if stt is not None and getattr(sx, "entry_params", None):
                        ent = stt.ghost.get("__entry__")
                        est = ent.v if ent is not None else stt
                        d["inputs"] = {p: decode_any(ob.model, sx, est, v) for p, v in sx.entry_params.items()}
                        d["ghost"] = {g: decode_any(ob.model, sx, stt, v) for g, v in stt.ghost.items() if isinstance(v, Val) and not g.startswith("__")}
                        d["ghost_entry"] = {g: decode_any(ob.model, sx, est, v) for g, v in est.ghost.items() if isinstance(v, Val) and not g.startswith("__")}
                except Exception as e:  # noqa
                    d["model_text"] = "<model error %s>" % e
            if ob.kind in ("post", "canary", "hole", "yield", "exc", "call-pre", "loop-init", "loop-preserve", "iteration-post", "assert") and len(rep["obligations"]) < 400:
                try:
                    d["smt_size"] = len(ob.hyps)
                    d["claim"] = str(ob.claim)[:400]
                except Exception:
                    pass
            rep["obligations"].append(d)
        # reachability covers: requires must be satisfiable, at least one return path reachable
        for (name, hyps) in sx.covers[:1]:
            s = z3.Solver()
            s.set("timeout", 5000)
            for h in hyps:
                s.add(h)
            rep["covers"].append({"name": name, "result": str(s.check())})
        rep["nfeas"] = sx.nfeas
    except Unsupported as e:
        rep["error"] = {"kind": "unsupported", "msg": e.msg, "line": getattr(e.node, "lineno", None)}
    except Exception as e:  # noqa
        rep["error"] = {"kind": "crash", "msg": "%s: %s" % (type(e).__name__, e), "trace": traceback.format_exc()[-2500:]}
    rep["wall_s"] = round(time.time() - t0, 3)
    return rep


def model_summary(model, limit=60):
    items = []
    for d in model.decls():
        n = d.name()
        if "!" in n and not n.split("!")[0] in ():
            base = n.split("!")[0]
        else:
            base = n
        if d.arity() == 0:
            v = model[d]
            s = str(v)
            if len(s) > 200:
                s = s[:200] + "..."
            items.append((n, s))
    items.sort()
    return {k: v for k, v in items[:limit]}
