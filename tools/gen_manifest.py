#!/usr/bin/env python3
"""regenerate MANIFEST.json from contracts/manifest_info.py (claimed properties) + properties.jsonl"""
import json, os, sys
ROOT = os.path.dirname(os.path.dirname(os.path.abspath(__file__)))
sys.path.insert(0, ROOT)
from contracts.manifest_info import CLAIMED, NOT_APPLICABLE  # noqa
props = [json.loads(l) for l in open(os.path.join(ROOT, "properties.jsonl"))]
checks = []
for p in props:
    pid = p["id"]
    if pid in CLAIMED:
        c = CLAIMED[pid]
        checks.append({
            "property_id": pid,
            "quick_cmd": "./check %s --tier quick" % pid,
            "thorough_cmd": "./check %s --tier thorough" % pid,
            "evidence_file": "evidence/%s.json" % pid,
            "replay_cmd_template": "./check %s --replay {path}" % pid,
            "engine": "pyvc",
            "level_claimed": {"category": c["category"], "text": c["text"], "design_ref": c.get("design_ref", "DESIGN.md section 5, %s" % pid)},
            "level_note": c["note"],
            "technique": c.get("technique", "contract-based deductive verification: VCs generated from the real function's AST against sidecar contracts, discharged by z3"),
        })
na = [{"property_id": p["id"], "reason": NOT_APPLICABLE.get(p["id"], "check not built yet (work in progress, see DESIGN.md build order)")} for p in props if p["id"] not in CLAIMED]
m = {
    "version": 1,
    "setup_cmd": "./setup.sh",
    "hooks": {"guard": "NOSTR_RELAY_VERIF", "enable": "no source hooks: contracts are sidecars under /verif/contracts keyed by qualified function name; checks read /repo's working tree directly on every run",
              "baseline_off_cmd": "cd /repo && /venv/bin/python -m pytest -ra -q -p no:cacheprovider --timeout=900 --continue-on-collection-errors",
              "source_commits": [], "add_only": True},
    "engines": [{"name": "pyvc", "path": "pyvc/", "serves_properties": sorted(CLAIMED),
                 "kind_free_text": "contract-based deductive verifier for a Python subset: obligations are generated from the AST of the real functions in /repo on every run (callers checked against callee contracts, loops cut by invariants) and discharged with z3; bounded counter-model search and native CPython replay for refutations"}],
    "checks": checks,
    "notes": "see DESIGN.md; known_findings.json lists recorded genuine defects; seeded/ holds independently produced property-breaking changes",
    "not_applicable": na,
}
json.dump(m, open(os.path.join(ROOT, "MANIFEST.json"), "w"), indent=1)
print("claimed:", sorted(CLAIMED), "not applicable:", len(na))
