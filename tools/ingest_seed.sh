#!/bin/bash
# usage: tools/ingest_seed.sh <worktree-with-SEED-dir> <seed-id> <round>
# copies SEED/{patch.diff,demo.py,meta.json} of a sub-agent's scratch worktree to seeded/<seed-id>/, removes that worktree,
# confirms the change natively (tools/confirm_seed.sh: demo passes without / fails with, stable tests still pass) and runs
# the property's quick check on a scratch worktree with the change applied (tools/run_seeds.sh).
set -u
cd "$(dirname "$0")/.."
wt=$1; id=$2; round=$3
[ -f "$wt/SEED/patch.diff" ] && [ -f "$wt/SEED/demo.py" ] && [ -f "$wt/SEED/meta.json" ] || { echo "$id: SEED incomplete in $wt"; exit 3; }
mkdir -p seeded/$id; cp "$wt/SEED/patch.diff" "$wt/SEED/demo.py" "$wt/SEED/meta.json" seeded/$id/
git -C /repo worktree remove --force "$wt" 2>/dev/null; rm -rf "$wt"
python3 - seeded/$id/meta.json "$wt" "$round" <<'PY'
import json, sys
p, wt, rnd = sys.argv[1:]
m = json.load(open(p)); m['orig_worktree'] = wt; m['round'] = int(rnd)
json.dump(m, open(p, 'w'), indent=1)
PY
tools/confirm_seed.sh seeded/$id 2>&1 | tail -1 | tee seeded/$id/confirm.txt
tools/run_seeds.sh $id 2>&1 | tee seeded/$id/check.txt
python3 - seeded/$id "$(git -C /repo rev-parse --short HEAD)" <<'PY'
import json, sys, re, os
d, head = sys.argv[1:]
m = json.load(open(d + '/meta.json'))
c = open(d + '/confirm.txt').read()
mm = re.search(r'demo_without=(\d+) demo_with=(\d+) suite=(\S+)', c)
if mm:
    m['confirmed_natively'] = {'demo_exit_without_patch': int(mm.group(1)), 'demo_exit_with_patch': int(mm.group(2)), 'baseline_suite': mm.group(3)}
k = open(d + '/check.txt').read()
mm = re.search(r'exit=(\d+) time=(\d+)s', k)
if mm:
    m['check_on_changed_tree'] = {'command': 'tools/run_seeds.sh ' + os.path.basename(d), 'repo_head': head, 'exit': int(mm.group(1)),
                                  'seconds': int(mm.group(2)), 'reported': [l.strip() for l in k.splitlines() if l.startswith('    ')]}
json.dump(m, open(d + '/meta.json', 'w'), indent=1)
PY
rm -f seeded/$id/confirm.txt
