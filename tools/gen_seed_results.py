#!/usr/bin/env python3
"""usage: tools/gen_seed_results.py LOG [LOG...]  -- rewrites seeded/RESULTS.md and prints the abridged table used in DESIGN.md section 7"""
import re, json, os, sys
ROOT = os.path.dirname(os.path.dirname(os.path.abspath(__file__)))
res = {}
for f in sys.argv[1:]:
    cur = None
    for l in open(f):
        m = re.match(r'SEED (\S+) prop=(\S+) exit=(\d+) time=(\d+)s', l)
        if m:
            cur = m.group(1); res[cur] = {'prop': m.group(2), 'exit': int(m.group(3)), 'time': int(m.group(4)), 'lines': []}
        elif cur and l.startswith('    '):
            res[cur]['lines'].append(l.strip())
rows, short = [], []
for sd in sorted(os.listdir(os.path.join(ROOT, 'seeded'))):
    p = os.path.join(ROOT, 'seeded', sd, 'meta.json')
    if not os.path.exists(p):
        continue
    m = json.load(open(p)); r = res.get(sd)
    summ = m['summary'].replace('\n', ' ').replace('|', '/')
    if r is None:
        verdict = v2 = 'not run'
    elif r['exit'] == 1:
        ob = [re.search(r'obligation=(\S+)', x).group(1) for x in r['lines'] if 'VIOLATION' in x]
        verdict = '**caught** (exit 1): ' + '; '.join('`%s`' % o for o in ob[:2]) + (' +%d more' % (len(ob) - 2) if len(ob) > 2 else '')
        v2 = 'caught: `%s`' % ob[0]
    elif r['exit'] == 0 and 'status_on_repaired_tree' in m:
        verdict = 'exit 0 -- not a violation on the repaired tree: ' + m['status_on_repaired_tree']
        v2 = 'exit 0, correct: no longer breaks the property on the repaired tree (fix 67b8802 rejects the inputs it needs)'
    elif r['exit'] == 0:
        verdict = v2 = 'exit 0 -- MISSED'
    else:
        verdict = v2 = 'exit %d: %s' % (r['exit'], ' '.join(r['lines'])[:200])
    rows.append('| %s | %s | %s | %s |' % (sd, m['property'], summ[:260] + ('…' if len(summ) > 260 else ''), verdict))
    short.append('| %s | %s | %s |' % (sd, summ[:105] + ('…' if len(summ) > 105 else ''), v2))
head = ['# Seeded changes: results of `tools/run_seeds.sh` on the current tree', '',
        'Each change was produced by a fresh sub-agent that saw only the property text and its own scratch worktree; each passes the baseline suite and',
        'comes with a demo (`demo.py`) that fails with the change and passes without it (re-confirmed with `tools/confirm_seed.sh`). Round 1 = `-a` (made against',
        'the pinned tree, five patches of round 1 rebased after repository fixes: `patch.orig.diff` kept), round 2 = `-b` (made against the repaired tree).', '',
        '| seed | prop | change | verdict of `./check <prop> --tier quick` on the changed tree |', '|---|---|---|---|']
open(os.path.join(ROOT, 'seeded', 'RESULTS.md'), 'w').write('\n'.join(head + rows) + '\n')
print('\n'.join(["| seed | change (abridged) | result of the property's quick check on the changed tree |", '|---|---|---|'] + short))
