#!/bin/bash
# usage: tools/run_seeds.sh [seed-id ...]   -- applies each seeded change to a scratch worktree of /repo (never /repo itself),
# runs the check of its property there, prints exit code and VIOLATION lines, removes the worktree.
cd "$(dirname "$0")/.."
seeds=("$@"); [ ${#seeds[@]} -eq 0 ] && seeds=($(ls -d seeded/*/ | xargs -n1 basename))
wt=$(mktemp -d /tmp/seedrun_XXXX); rmdir "$wt"
git -C /repo worktree add -q --detach "$wt" HEAD || exit 3
out=$(mktemp -d /tmp/seedout_XXXX)
trap 'git -C /repo worktree remove --force "$wt" 2>/dev/null; rm -rf "$wt" "$out"' EXIT
for s in "${seeds[@]}"; do
  prop=$(python3 -c "import json;print(json.load(open('seeded/$s/meta.json'))['property'])")
  git -C "$wt" reset -q --hard HEAD; git -C "$wt" clean -fdq
  if ! git -C "$wt" apply "$PWD/seeded/$s/patch.diff" 2>/dev/null; then
     if ! git -C "$wt" apply -3 "$PWD/seeded/$s/patch.diff" 2>/dev/null; then echo "SEED $s prop=$prop: patch does not apply on the current tree"; continue; fi
  fi
  t0=$(date +%s)
  res=$(PYVC_REPO="$wt" PYVC_OUT_DIR="$out" ./check "$prop" --tier quick 2>&1); rc=$?
  t1=$(date +%s)
  echo "SEED $s prop=$prop exit=$rc time=$((t1-t0))s"
  echo "$res" | grep -E "^(VIOLATION|UNDECIDED|CHECKER-ERROR|property)" | cut -c1-260 | head -6 | sed 's/^/    /'
done
