#!/bin/bash
# usage: tools/run_reverts.sh [sha ...]   -- for every "fixed:" entry of known_findings.json: revert that commit in a scratch worktree of
# /repo (never /repo itself), run the check of the entry's property there and print its verdict.  A fixed entry suppresses nothing, so
# every revert must be reported as a VIOLATION (exit 1).  Reverts that conflict with later commits are listed as CONFLICT.
cd "$(dirname "$0")/.."
want=("$@")
wt=$(mktemp -d /tmp/revrun_XXXX); rmdir "$wt"
git -C /repo worktree add -q --detach "$wt" HEAD || exit 3
out=$(mktemp -d /tmp/revout_XXXX)
trap 'git -C /repo worktree remove --force "$wt" 2>/dev/null; rm -rf "$wt" "$out"' EXIT
python3 -c "
import json,re
for l in json.load(open('known_findings.json'))['fixed']:
    m=re.match(r'fixed: property=(\S+) (\S+) ', l); print(m.group(1), m.group(2))" | while read prop sha; do
  if [ ${#want[@]} -gt 0 ] && [[ ! " ${want[*]} " =~ " $sha " ]]; then continue; fi
  git -C "$wt" reset -q --hard HEAD; git -C "$wt" clean -fdq
  if ! git -C "$wt" revert --no-commit "$sha" >/dev/null 2>&1; then
     git -C "$wt" revert --abort 2>/dev/null; git -C "$wt" reset -q --hard HEAD
     echo "REVERT $sha prop=$prop CONFLICT (later commits touch the same lines)"; continue
  fi
  t0=$(date +%s)
  res=$(PYVC_REPO="$wt" PYVC_OUT_DIR="$out" ./check "$prop" --tier quick 2>&1); rc=$?
  t1=$(date +%s)
  echo "REVERT $sha prop=$prop exit=$rc time=$((t1-t0))s"
  echo "$res" | grep -E "^(VIOLATION|UNDECIDED|CHECKER-ERROR)" | cut -c1-220 | head -3 | sed 's/^/    /'
done
