#!/bin/bash
# usage: confirm_seed.sh <seed-dir>   -- confirms: patch applies, stable tests still pass, demo fails with / passes without
set -u
sd=$(readlink -f "$1"); id=$(basename "$sd")
wt=$(/venv/bin/python -c "import json,sys;print(json.load(open(sys.argv[1]))['orig_worktree'])" "$sd/meta.json"); [ -e "$wt" ] && { echo "$id: $wt exists"; exit 3; }
git -C /repo worktree add -q --detach "$wt" HEAD || exit 3
cleanup(){ git -C /repo worktree remove --force "$wt" 2>/dev/null; rm -rf "$wt"; }
trap cleanup EXIT; export SKIP_SUITE=${SKIP_SUITE:-0}
cd "$wt"
mkdir -p SEED; cp "$sd/demo.py" SEED/
/venv/bin/python SEED/demo.py >/dev/null 2>&1; without=$?
git apply "$sd/patch.diff" || { echo "$id: patch does not apply"; exit 3; }
/venv/bin/python SEED/demo.py >/dev/null 2>&1; with=$?
/venv/bin/python -m pytest -q -p no:cacheprovider --timeout=900 --continue-on-collection-errors --junitxml="$wt/junit.xml" >/dev/null 2>&1
/venv/bin/python - "$wt/junit.xml" <<'PY' > "$wt/suite.txt"
import sys, json, xml.etree.ElementTree as ET
base=set(json.load(open('/root/.vp/BASELINE.json'))['stable_pass'])
passed=set()
for tc in ET.parse(sys.argv[1]).getroot().iter('testcase'):
    if not any(ch.tag in ('failure','error','skipped') for ch in tc):
        passed.add(tc.get('classname')+'::'+tc.get('name'))
missing=sorted(base-passed)
print('stable_pass_ok' if not missing else 'MISSING:'+','.join(missing))
PY
echo "$id demo_without=$without demo_with=$with suite=$(cat $wt/suite.txt)"
