#!/bin/bash
# usage: tools/run_all.sh [quick|thorough] [extra ./check args]  -- every claimed property, one line each
cd "$(dirname "$0")/.."
tier=${1:-quick}; shift
for p in $(python3 -c "import json;print(' '.join(c['property_id'] for c in json.load(open('MANIFEST.json'))['checks']))"); do
  t0=$(date +%s); out=$(./check $p --tier $tier "$@" 2>&1); rc=$?; t1=$(date +%s)
  echo "$p exit=$rc $((t1-t0))s | $(echo "$out" | tail -1)"
  echo "$out" | grep -E "^(VIOLATION|UNDECIDED|CHECKER-ERROR)" | cut -c1-300 | sed 's/^/     /'
done
