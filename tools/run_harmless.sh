#!/bin/bash
# usage: tools/run_harmless.sh   -- applies each behaviour-preserving edit of harmless/*.diff to a scratch worktree and runs the
# property named in its file name; every line must say exit=0 (anything else is a false alarm or a brittleness of the check)
cd "$(dirname "$0")/.."
wt=$(mktemp -d /tmp/harm_XXXX); rmdir "$wt"; out=$(mktemp -d /tmp/harmout_XXXX)
git -C /repo worktree add -q --detach "$wt" HEAD || exit 3
trap 'git -C /repo worktree remove --force "$wt" 2>/dev/null; rm -rf "$wt" "$out"' EXIT
for f in harmless/*.diff; do
  n=$(basename "$f" .diff); prop=${n##*.}
  git -C "$wt" reset -q --hard HEAD
  git -C "$wt" apply "$PWD/$f" || { echo "$n: patch does not apply"; continue; }
  res=$(PYVC_REPO="$wt" PYVC_OUT_DIR="$out" ./check "$prop" --tier quick 2>&1); rc=$?
  echo "$n exit=$rc | $(echo "$res" | tail -1 | cut -c1-140)"
  echo "$res" | grep -E "^(VIOLATION|UNDECIDED|CHECKER)" | cut -c1-230 | head -3 | sed 's/^/    /'
done
