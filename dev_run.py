import sys, json, importlib
sys.path.insert(0, '/verif')
from pyvc import verify
mods = sys.argv[1].split(',')
key = sys.argv[2]
import os
if len(sys.argv)>4 and not sys.argv[4].startswith("-"): os.environ["PYVC_ONLY"]=sys.argv[4]
rep = verify.run_unit(key, mods, tier="quick", timeout_ms=int(sys.argv[3]) if len(sys.argv)>3 else 10000)
if rep['error']:
    print('ERROR', rep['error'].get('kind'), rep['error'].get('msg'), 'line', rep['error'].get('line')); print(rep['error'].get('trace',''))
for o in rep['obligations']:
    print('%-10s %-7s %6.2fs  %s %s' % (o['status'], o['backend'], o['seconds'], o['name'], o.get('reason','') if o['status']=='unknown' else ''))
    if o['status']=='refuted' and '-v' in sys.argv: print('    ', json.dumps(o.get('model_text'))[:1500])
print(rep['paths'], rep['covers'], 'wall', rep['wall_s'], 'nfeas', rep.get('nfeas'))
