#!/bin/sh
# Build the offline overlay environment (python 3.12 + z3/cvc5/crosshair/deal + the repo's own deps via .pth)
set -e
cd "$(dirname "$0")"
if [ ! -x .ovl/bin/python ] || ! .ovl/bin/python -c "import z3, jsonschema" 2>/dev/null; then
  rm -rf .ovl
  /venv/bin/python -m venv .ovl
  PIP_NO_INDEX=1 .ovl/bin/pip install -q --no-index --find-links /opt/veriftools/wheels z3-solver cvc5 crosshair-tool deal icontract jsonschema hypothesis
  echo "import site; site.addsitedir('/venv/lib/python3.12/site-packages')" > .ovl/lib/python3.12/site-packages/_repo.pth
fi
.ovl/bin/python -c "import z3, jsonschema; print('overlay ok, z3', z3.get_version_string())"
