"""KNOWN FINDING witness: a rule '0/s' (n = 0) must admit nothing, yet the first message is admitted.
exit 1 = the defect is present, exit 0 = absent."""
import sys
from _lim import Clocked

rl = Clocked({"ip": {"EVENT": "0/s"}})
rl.t = 10.0
admitted = not rl.is_limited("1.2.3.4", ["EVENT", {}])
print("admitted under 0/s:", admitted)
sys.exit(1 if admitted else 0)
