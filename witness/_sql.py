"""shared helper for SQL-backend witnesses: an in-memory DBStorage and signed events"""
import asyncio
import atexit
import logging
import os
import shutil
import tempfile

logging.disable(logging.CRITICAL)
from aionostr.event import Event  # noqa: E402
from aionostr.key import PrivateKey  # noqa: E402
from nostr_relay.config import Config  # noqa: E402
from nostr_relay.storage.db import DBStorage  # noqa: E402

KEYS = [PrivateKey(bytes([i + 1]) * 32) for i in range(4)]


def make_event(key=0, kind=1, created_at=1000, tags=None, content="x"):
    k = KEYS[key]
    ev = Event(pubkey=k.public_key.hex(), kind=kind, created_at=created_at, tags=tags or [], content=content)
    ev.sign(k.hex())
    return ev


async def open_storage(**options):
    d = tempfile.mkdtemp(prefix="witness_", dir="/dev/shm" if os.path.isdir("/dev/shm") else None)
    atexit.register(shutil.rmtree, d, True)
    Config.load(os.environ.get("WITNESS_CONFIG", None), reload=True) if hasattr(Config, "load") and False else None
    st = DBStorage({"sqlalchemy.url": "sqlite+aiosqlite:///%s/db.sqlite3" % d, **options})
    await st.setup()
    async with st.db.begin() as conn:
        from nostr_relay.storage import get_metadata
        await conn.run_sync(get_metadata().create_all)
    return st


async def stored_ids(st, flt):
    out = []
    async for ev in st.run_single_query([flt]):
        out.append(ev.id)
    return out


def run(coro):
    return asyncio.run(coro)
