"""KNOWN FINDING witness (SQL backend): a duplicate submission of a replaceable event is answered (False = 'duplicate')
and yet deletes an older stored version of the same address.  exit 1 = defect present."""
import sys
from _sql import make_event, open_storage, stored_ids, run


async def main():
    st = await open_storage()
    a = make_event(kind=10002, created_at=10, content="a")
    b = make_event(kind=10002, created_at=5, content="b")
    await st.add_event(a.to_json_object())
    await st.add_event(b.to_json_object())          # older version arrives later: both are stored now
    before = sorted(await stored_ids(st, {"kinds": [10002]}))
    ev, changed = await st.add_event(a.to_json_object())   # exact duplicate
    after = sorted(await stored_ids(st, {"kinds": [10002]}))
    await st.close()
    print("changed flag:", changed, "stored before:", len(before), "after:", len(after))
    return 1 if (changed is False and before != after) else 0

sys.exit(run(main()))
