"""KNOWN FINDING witness (LMDB backend): a plan with several match values scans one value after the other, newest-first only inside
each value; with a limit the retained events are not the newest.  exit 1 = defect present."""
import sys
from _kv import make_event, open_kv, settle, run


async def main():
    st = await open_kv()
    new = make_event(kind=1, created_at=2000)
    old = make_event(kind=2, created_at=1000)
    for e in (new, old):
        await st.add_event(e.to_json_object())
    await settle(st)
    # what Subscription.run_query does for a client REQ: planner (no default_limit) -> execute_one_plan per plan
    import logging
    from nostr_relay.storage import kv
    plans = kv.planner([{"kinds": [1, 2], "limit": 1}])
    got = [ev.id for plan in plans for ev in kv.execute_one_plan(st.db, plan, logging.getLogger("w"))[1]]
    await st.close()
    print("limit 1 over {kind1@2000, kind2@1000} returned", ["new" if g == new.id else "old" for g in got])
    return 1 if got == [old.id] else 0

sys.exit(run(main()))
