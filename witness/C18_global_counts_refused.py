"""KNOWN FINDING witness: with both a global and an ip rule, a message refused by the ip rule is still recorded
in the global history, so a later message of another address is refused although the global rule has not
passed n admitted messages.  exit 1 = defect present."""
import sys
from _lim import Clocked

rl = Clocked({"global": {"EVENT": "2/s"}, "ip": {"EVENT": "1/s"}})
rl.t = 10.0
a1 = rl.is_limited("1.1.1.1", ["EVENT", {}])   # admitted (global 1, ip 1)
rl.t = 10.1
a2 = rl.is_limited("1.1.1.1", ["EVENT", {}])   # refused by ip (1/s) -- but global recorded it
rl.t = 10.2
b1 = rl.is_limited("2.2.2.2", ["EVENT", {}])   # only ONE message was admitted so far: global 2/s must admit
print("a1 limited", a1, "a2 limited", a2, "b1 limited", b1)
sys.exit(1 if (a1 is False and a2 is True and b1 is True) else 0)
