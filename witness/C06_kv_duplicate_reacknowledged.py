"""KNOWN FINDING witness (LMDB backend): add_event answers True ('stored') before the writer thread has looked at the event, so a
resubmitted, already stored event is acknowledged True and broadcast to subscribers a second time.  exit 1 = defect present."""
import sys
from _kv import make_event, open_kv, settle, run


async def main():
    st = await open_kv()
    pushed = []

    async def fake_notify(event):
        pushed.append(event.id)
    st.notify_all_connected = fake_notify
    ev = make_event(kind=1, created_at=1000)
    _, first = await st.add_event(ev.to_json_object())
    await settle(st)
    _, second = await st.add_event(ev.to_json_object())
    await settle(st)
    await st.close()
    print("first flag", first, "second flag", second, "broadcasts", len(pushed))
    return 1 if (second is True or len(pushed) > 1) else 0

sys.exit(run(main()))
