"""regression witness (LMDB backend, fixed): a parameterised replaceable event with d='ab' must not remove the stored d='a' event,
a bare/absent d tag must only replace d='' events, and d='' must replace an older d=''.  exit 1 = defect present."""
import sys, os
sys.path.insert(0, os.path.join(os.path.dirname(os.path.abspath(__file__)), ".."))
from _kv import make_event, open_kv, settle, query_ids, run


async def main():
    st = await open_kv()
    a = make_event(kind=30023, created_at=10, tags=[["d", "a"]], content="a")
    e0 = make_event(kind=30023, created_at=11, tags=[["d", ""]], content="empty")
    for ev in (a, e0):
        await st.add_event(ev.to_json_object())
    await settle(st)
    ab = make_event(kind=30023, created_at=20, tags=[["d", "ab"]], content="ab")
    bare = make_event(kind=30023, created_at=21, tags=[["d"]], content="bare")
    for ev in (ab, bare):
        await st.add_event(ev.to_json_object())
        await settle(st)
    left = set(await query_ids(st, {"kinds": [30023]}))
    await st.close()
    ok = (a.id in left) and (ab.id in left) and (bare.id in left) and (e0.id not in left)
    print("a kept:", a.id in left, " ab kept:", ab.id in left, " bare kept:", bare.id in left, " old empty-d replaced:", e0.id not in left)
    return 0 if ok else 1

sys.exit(run(main()))
