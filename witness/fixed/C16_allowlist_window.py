"""KNOWN FINDING witness: while ListBuilder.run_once refreshes a non-empty allow list with a non-empty result, the
global list is observably empty (= not enforced) between clear() and update().  A set subclass observes the state
exactly where another thread could.  exit 1 = defect present."""
import asyncio
import sys

import nostr_relay.dynamic_lists as dl
from nostr_relay.errors import StorageError

member = "aa" * 32
stranger = "bb" * 32
observed = []


class Ev:
    def __init__(self, pubkey, tags=()):
        self.pubkey = pubkey
        self.tags = list(tags)


class Spy(set):
    def update(self, *a):
        # a validator thread running right now
        try:
            dl.is_pubkey_allowed(Ev(stranger), None)
            observed.append("stranger admitted")
        except StorageError:
            observed.append("stranger refused")
        return super().update(*a)


class FakeStorage:
    async def run_single_query(self, queries):
        yield Ev("cc" * 32, [["p", member]])


dl.ALLOWED_PUBKEYS = Spy([bytes.fromhex(member)])
dl.get_storage = lambda: FakeStorage()
lb = dl.ListBuilder.__new__(dl.ListBuilder)
import logging
lb.log = logging.getLogger("x")
lb.options = {"allow_list_queries": [{"kinds": [3]}]}
lb.initial = []
asyncio.run(lb.run_once())
print(observed)
sys.exit(1 if "stranger admitted" in observed else 0)
