"""KNOWN FINDING witness: a specific-address rule for an IPv6 address (no '.' in it) does not override the
generic ip rule.  exit 1 = defect present."""
import sys
from _lim import Clocked

rl = Clocked({"::1": {"EVENT": "-1/s"}, "ip": {"EVENT": "1/s"}})
rl.t = 5.0
r1 = rl.is_limited("::1", ["EVENT", {}])
rl.t = 5.1
r2 = rl.is_limited("::1", ["EVENT", {}])
print("first limited", r1, "second limited", r2)
sys.exit(1 if r2 else 0)
