"""shared helper for rate-limiter witnesses: a RateLimiter with an injected clock"""
from nostr_relay.rate_limiter import RateLimiter


class Clocked(RateLimiter):
    def __init__(self, options):
        self.t = 0.0
        super().__init__(options)

    def _timestamp(self):
        return self.t
