"""KNOWN FINDING witness (SQL backend): with two older versions stored, a newer replaceable event removes only one.
exit 1 = defect present."""
import sys
from _sql import make_event, open_storage, stored_ids, run


async def main():
    st = await open_storage()
    for t in (10, 5, 20):
        await st.add_event(make_event(kind=10002, created_at=t, content=str(t)).to_json_object())
    left = await stored_ids(st, {"kinds": [10002]})
    await st.close()
    print("stored versions after t=10,5,20:", len(left))
    return 1 if len(left) > 1 else 0

sys.exit(run(main()))
