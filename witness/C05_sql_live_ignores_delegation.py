"""KNOWN FINDING witness: live matching and stored matching disagree on NIP-26 delegated events (SQL backend).
The stored query {authors:[A]} returns an event posted by B with a delegation tag naming A; check_event says it does not match.
exit 1 = defect present."""
import sys
from _sql import make_event, open_storage, stored_ids, run, KEYS
from nostr_relay.storage.base import BaseSubscription, NostrQuery


async def main():
    st = await open_storage()
    a = KEYS[1].public_key.hex() if hasattr(KEYS[1], "public_key") else None
    a = a or "ab" * 32
    ev = make_event(key=0, kind=1, created_at=1000, tags=[["delegation", a, "kind=1", "00" * 64]])
    st.validate_event = _ok
    await st.add_event(ev.to_json_object())
    flt = {"authors": [a]}
    stored = ev.id in await stored_ids(st, flt)
    live = bool(BaseSubscription.check_event(None, ev, [NostrQuery.model_validate(flt)]))
    await st.close()
    print("stored query returns the delegated event:", stored, "| live matcher matches it:", live)
    return 1 if stored != live else 0


async def _ok(event, config):
    return True

sys.exit(run(main()))
