"""KNOWN FINDING witness (LMDB backend): KVGarbageCollector walks the expiration tag index from "0" to str(now) in BYTE order.
'999' (long past) sorts after the current time and is kept; '10000000000' (year 2286) sorts before it and is deleted.
exit 1 = defect present."""
import sys
from _kv import make_event, open_kv, settle, query_ids, run
from nostr_relay.storage.kv import KVGarbageCollector


async def main():
    st = await open_kv()
    evs = {v: make_event(kind=1, created_at=100 + i, tags=[["expiration", v]], content=v) for i, v in enumerate(["999", "10000000000"])}
    for e in evs.values():
        await st.add_event(e.to_json_object())
    await settle(st)
    gc = KVGarbageCollector(st)
    with st.db.begin() as txn:
        await gc.collect(txn)
    await settle(st)
    left = set(await query_ids(st, {"kinds": [1]}))
    await st.close()
    kept = {v: (e.id in left) for v, e in evs.items()}
    print("kept after GC:", kept)
    return 1 if (kept["999"] or not kept["10000000000"]) else 0

sys.exit(run(main()))
