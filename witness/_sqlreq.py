"""run a REQ (list of filters) the way BaseStorage.subscribe does on the SQL backend; returns the delivered event ids"""
import asyncio
from nostr_relay.storage.base import NostrQuery


async def req(st, filters):
    queue = asyncio.Queue()
    sub = st.subscription_class(st, "s", [NostrQuery.model_validate(f) for f in filters], queue=queue, client_id="c")
    assert sub.prepare()
    await sub.run_query()
    out = []
    while not queue.empty():
        sub_id, ev = queue.get_nowait()
        if ev is not None:
            out.append(ev.id)
    return out
