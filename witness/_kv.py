"""shared helper for LMDB-backend witnesses: LMDBStorage over the in-memory lmdb/msgpack stand-ins of /verif/stubs"""
import asyncio
import logging
import os
import sys

logging.disable(logging.CRITICAL)
sys.path.insert(0, os.path.join(os.path.dirname(os.path.abspath(__file__)), "..", "stubs"))
from _sql import make_event, KEYS  # noqa: E402,F401
from nostr_relay.storage import kv  # noqa: E402


async def open_kv(**options):
    st = kv.LMDBStorage({"class": "nostr_relay.storage.kv.LMDBStorage", "path": "/nonexistent-in-memory", **options})
    await st.setup()
    return st


async def settle(st):
    await st.wait_for_writer()


async def query_ids(st, flt):
    out = []
    async for ev in st.run_single_query([flt]):
        out.append(ev.id)
    return out


def run(coro):
    return asyncio.run(coro)
