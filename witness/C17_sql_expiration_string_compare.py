"""KNOWN FINDING witness (SQL backend): the garbage collector compares expiration values as STRINGS.
'999' (long past) is kept, '10000000000' (year 2286) and the malformed '0x' are deleted.  exit 1 = defect present."""
import sys
from _sql import make_event, open_storage, stored_ids, run
from nostr_relay.storage.db import QueryGarbageCollector


async def main():
    st = await open_storage()
    evs = {v: make_event(kind=1, created_at=100 + i, tags=[["expiration", v]], content=v) for i, v in enumerate(["999", "10000000000", "0x"])}
    for e in evs.values():
        await st.add_event(e.to_json_object())
    gc = QueryGarbageCollector(st)
    async with st.db.begin() as conn:
        await gc.collect(conn)
    left = set(await stored_ids(st, {"kinds": [1]}))
    await st.close()
    kept = {v: (e.id in left) for v, e in evs.items()}
    print("kept after GC:", kept)
    # correct behaviour: '999' removed, the other two kept
    wrong = kept["999"] or not kept["10000000000"] or not kept["0x"]
    return 1 if wrong else 0

sys.exit(run(main()))
