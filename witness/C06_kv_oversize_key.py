"""KNOWN FINDING witness (LMDB backend): an event with an indexable tag value longer than the engine's key limit (511 bytes including
prefix, name, timestamp and id) is acknowledged True by add_event; the writer thread's put then fails (MDB_BAD_VALSIZE), the write
transaction is aborted and the event is never stored.  exit 1 = defect present."""
import sys
from _kv import make_event, open_kv, settle, query_ids, run


async def main():
    st = await open_kv()
    ev = make_event(kind=1, created_at=1000, tags=[["t", "v" * 600]])
    _, flag = await st.add_event(ev.to_json_object())
    await settle(st)
    got = await query_ids(st, {"ids": [ev.id]})
    await st.close()
    print("acknowledged", flag, "retrievable", ev.id in got)
    return 1 if (flag is True and ev.id not in got) else 0

sys.exit(run(main()))
