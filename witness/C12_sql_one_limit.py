"""KNOWN FINDING witness (SQL backend): the statement has one LIMIT for all filters of a REQ (the last filter's), so a filter
with limit 1 is answered with more than one event.  exit 1 = defect present."""
import sys
from _sql import make_event, open_storage, run
from _sqlreq import req


async def main():
    st = await open_storage()
    a, b = make_event(kind=1, created_at=1000, content="a"), make_event(kind=1, created_at=2000, content="b")
    for e in (a, b):
        await st.add_event(e.to_json_object())
    got = await req(st, [{"kinds": [1], "limit": 1}, {"kinds": [2]}])
    await st.close()
    print("REQ [{kinds:[1], limit:1}, {kinds:[2]}] over two kind-1 events delivered", len(got))
    return 1 if len(got) > 1 else 0

sys.exit(run(main()))
