import sys, importlib, time
sys.path.insert(0, '/verif')
import z3
from pyvc import verify
mods = sys.argv[1].split(','); key = sys.argv[2]; pat = sys.argv[3]; idx = int(sys.argv[4]) if len(sys.argv)>4 else 0
for m in mods: reg = importlib.import_module(m).REG
unit = reg.units[key]
sx, info = verify.generate(unit, reg)
obs = [o for o in sx.obligations if pat in o.name]
print(len(obs), 'matching')
o = obs[idx]
print(o.name, 'line', o.loc)
for h in o.hyps: print('  H:', str(h)[:600].replace('\n',' '))
print('  CLAIM:', str(o.claim)[:1500])
