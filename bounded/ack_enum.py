"""
BOUNDED stand-in (never counted as proved) for the clause of C06 that spans the storage engine: "OK=true is sent only if the event
is thereafter retrievable".  The contracts prove what add_event does up to the hand-over (one INSERT inside the transaction / one
item on the writer queue); that the engine then keeps the event is exercised here for the inputs the property's quantifier names:
tags of any length (600 and 5000 bytes, 300 tags, one-item tags), deletion requests naming no / malformed ids, timestamps and kinds at
the edges of what is_canonical admits, and tag items that are not strings.
Each event is submitted through the real add_event; once background writers are idle an accepted (True) non-ephemeral event must be
returned by a query for its id, and a refused one (exception / False) must not be.

usage: ack_enum.py --backend sql|kv [--json OUT]
"""
import argparse
import asyncio
import json
import logging
import os
import sys

ROOT = os.path.dirname(os.path.dirname(os.path.abspath(__file__)))
sys.path.insert(0, os.path.join(ROOT, "witness"))
sys.path.insert(0, os.path.join(ROOT, "stubs"))
sys.path.insert(0, os.environ.get("PYVC_REPO", "/repo"))
logging.disable(logging.CRITICAL)

from _sql import make_event, open_storage  # noqa: E402


# not NIP-01 events / not valid NIP-26 delegations: the validators may refuse them (then they must leave no trace); if they are
# acknowledged they must be retrievable like any other
MAY_BE_REFUSED = {"integer-tag-value", "integer-tag-name", "bare-delegation-tag",
                  # outside the integer range the relay accepts (fix 3e4123b)
                  "created-at-2^32", "created-at-minus-1", "created-at-2^63", "kind-2^32", "kind-minus-1", "kind-70000"}


def cases():
    # (label, finding class on the LMDB backend or None, event)
    out = []
    out.append(("plain", None, make_event(key=0, kind=1, created_at=1000, tags=[["t", "x"]], content="a")))
    out.append(("no-tags", None, make_event(key=0, kind=1, created_at=1001, tags=[], content="b")))
    out.append(("tag-value-400-bytes", None, make_event(key=0, kind=1, created_at=1002, tags=[["t", "v" * 400]], content="c")))
    out.append(("tag-value-600-bytes", "key-longer-than-the-engine-allows", make_event(key=0, kind=1, created_at=1003, tags=[["t", "v" * 600]], content="d")))
    out.append(("tag-value-5000-bytes", "key-longer-than-the-engine-allows", make_event(key=0, kind=1, created_at=1004, tags=[["e", "w" * 5000]], content="e")))
    out.append(("long-value-in-unindexed-tag", None, make_event(key=0, kind=1, created_at=1005, tags=[["title", "w" * 5000]], content="f")))
    out.append(("300-tags", None, make_event(key=1, kind=1, created_at=1000, tags=[["t", "v%d" % i] for i in range(300)], content="g")))
    out.append(("integer-tag-value", None, make_event(key=1, kind=1, created_at=1001, tags=[["t", 7]], content="h")))
    out.append(("integer-tag-name", "non-text-tag-name", make_event(key=1, kind=1, created_at=1002, tags=[[7, "x"]], content="i")))
    out.append(("one-item-tags", None, make_event(key=1, kind=1, created_at=1003, tags=[["p"], ["e"]], content="j")))
    out.append(("multi-byte-tag", None, make_event(key=1, kind=1, created_at=1004, tags=[["é", "中" * 100]], content="k")))
    out.append(("created-at-0", None, make_event(key=2, kind=1, created_at=0, tags=[], content="l")))
    out.append(("created-at-2^32-1", None, make_event(key=2, kind=1, created_at=2 ** 32 - 1, tags=[], content="m")))
    out.append(("created-at-2^32", None, make_event(key=2, kind=1, created_at=2 ** 32, tags=[], content="m2")))
    out.append(("created-at-minus-1", None, make_event(key=2, kind=1, created_at=-1, tags=[], content="m3")))
    out.append(("created-at-2^63", None, make_event(key=2, kind=1, created_at=2 ** 63, tags=[], content="m4")))
    out.append(("kind-2^32", None, make_event(key=2, kind=2 ** 32, created_at=1000, tags=[], content="m5")))
    out.append(("kind-minus-1", None, make_event(key=2, kind=-1, created_at=1000, tags=[], content="m6")))
    out.append(("kind-70000", None, make_event(key=2, kind=70000, created_at=1000, tags=[], content="m7")))
    out.append(("kind-0", None, make_event(key=2, kind=0, created_at=1000, tags=[], content="{}")))
    out.append(("kind-65535", None, make_event(key=2, kind=65535, created_at=1000, tags=[], content="n")))
    out.append(("replaceable", None, make_event(key=3, kind=10002, created_at=1000, tags=[["t", "x"]], content="o")))
    out.append(("parameterised-long-d", "key-longer-than-the-engine-allows", make_event(key=3, kind=30002, created_at=1000, tags=[["d", "d" * 600]], content="p")))
    out.append(("deletion-of-nothing", None, make_event(key=3, kind=5, created_at=1000, tags=[["e", "00" * 32]], content="")))
    out.append(("bare-expiration-tag", None, make_event(key=3, kind=1, created_at=1001, tags=[["expiration"]], content="r")))
    out.append(("bare-delegation-tag", None, make_event(key=3, kind=1, created_at=1002, tags=[["delegation"]], content="s")))
    out.append(("deletion-with-bare-e-tag", None, make_event(key=3, kind=5, created_at=1003, tags=[["e"]], content="")))
    out.append(("deletion-with-non-hex-e-tag", None, make_event(key=3, kind=5, created_at=1004, tags=[["e", "zz"]], content="")))
    out.append(("parameterised-bare-d", None, make_event(key=3, kind=30003, created_at=1000, tags=[["d"]], content="t")))
    out.append(("non-decimal-expiration", None, make_event(key=3, kind=1, created_at=1005, tags=[["expiration", "soon"]], content="u")))
    out.append(("ephemeral", None, make_event(key=3, kind=20002, created_at=1000, tags=[["t", "v" * 600]], content="q")))
    return out


async def run(backend):
    if backend == "sql":
        st = await open_storage()
    else:
        from _kv import open_kv, settle
        st = await open_kv()
    fails, n, samples = [], 0, []
    for label, cls, ev in cases():
        n += 1
        ok, err = None, None
        try:
            _, ok = await st.add_event(ev.to_json_object())
        except Exception as e:  # noqa
            err = type(e).__name__ + ": " + str(e)[:80]
        if backend == "kv":
            await settle(st)
        got = []
        async for e2 in st.run_single_query([{"ids": [ev.id]}]):
            got.append(e2.id)
        stored = ev.id in got
        rec = {"case": label, "answered": ok if err is None else err, "retrievable": stored}
        if len(samples) < 3:
            samples.append(dict(rec, backend=backend))
        eph = 20000 <= ev.kind < 30000
        if err is None and ok and not eph and not stored:
            fails.append(("acknowledged-true-but-not-retrievable", cls if backend == "kv" else None, rec))
        if (err is not None or ok is False) and stored:
            fails.append(("refused-but-stored", None, rec))
        if err is not None and not eph and label not in MAY_BE_REFUSED:
            # a well-formed event that passes the validators is never refused except as a duplicate
            fails.append(("well-formed-event-refused", cls if backend == "kv" else None, rec))
    await st.close()
    return n, fails, samples


def main():
    ap = argparse.ArgumentParser()
    ap.add_argument("--backend", default="sql")
    ap.add_argument("--json")
    a = ap.parse_args()
    n, fails, samples = asyncio.run(run(a.backend))
    classes = {}
    for kind, cls, ex in fails:
        rec = classes.setdefault((kind, cls), {"count": 0, "example": ex})
        rec["count"] += 1
    out = {"backend": a.backend, "cases": n, "samples": samples,
           "failure_classes": [{"kind": k[0], "class": k[1], "count": v["count"], "example": v["example"]} for k, v in sorted(classes.items(), key=str)]}
    if a.json:
        json.dump(out, open(a.json, "w"), indent=1, default=str)
    for c in out["failure_classes"]:
        print("FAIL", c["kind"], c["class"], c["count"], json.dumps(c["example"], default=str)[:300])
    print(json.dumps({"backend": a.backend, "cases": n}))
    return 0


if __name__ == "__main__":
    sys.exit(main())
