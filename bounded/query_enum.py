"""
BOUNDED stand-in (never counted as proved) for the clauses no contract here decides: completeness / exactly-once / independence of
neighbouring keys / newest-first truncation of the LMDB query path
    kv.planner -> Index.scanner / MultiIndex.scanner -> matcher -> execute_one_plan.

The REAL functions of the repository run against the in-memory lmdb/msgpack stand-ins of /verif/stubs.  Every store of at most N
events drawn from a small universe -- chosen to contain the byte-order neighbours the properties name: ids/pubkeys starting 00 / 7f /
ff, kinds 0,1,2,256, tag values '', 'a', 'ab', 'b', events sharing a timestamp, an event carrying two values of one tag -- is queried
with a fixed family of filters and compared with an independent NIP-01 oracle written here:

  C01  nothing is returned that does not match (inclusive window)
  C02  every stored event that matches and is strictly inside the window is returned, exactly once per filter
  C11  adding a non-matching event to the store never changes the answer; a stronger filter never returns more; a multi-value
       condition returns the union of its single values
  C12  with a limit n at most n events come back and no left-out matching event is newer than a returned one

usage: kvquery_enum.py --max-store 2 [--jobs 16] [--json OUT]
prints one line  FAIL <class> <property> <json example>  per failure class and a JSON summary.
"""
import argparse
import itertools
import json
import logging
import os
import sys
import time
from concurrent.futures import ProcessPoolExecutor

ROOT = os.path.dirname(os.path.dirname(os.path.abspath(__file__)))
sys.path.insert(0, os.path.join(ROOT, "stubs"))
sys.path.insert(0, os.environ.get("PYVC_REPO", "/repo"))
logging.disable(logging.CRITICAL)

from nostr_relay.config import Config  # noqa: E402

# a small configured cap, set BEFORE the storage modules are imported (NostrQuery.limit and BaseSubscription.default_limit read
# Config.max_limit when their modules are loaded, as they do in a relay started with this value in its configuration file)
MAXL = 2
Config.max_limit = MAXL

import lmdb  # noqa: E402  (the stand-in)
from aionostr.event import Event  # noqa: E402
from nostr_relay.storage import kv  # noqa: E402
from nostr_relay.storage.base import NostrQuery, BaseSubscription  # noqa: E402

META = "x'y\"\\z) OR 1=1 --%_"
PKB = {"0": "00", "7": "7f", "f": "ff"}
PK = {k: v * 32 for k, v in PKB.items()}


def mk(pk, kind, ts, tags, n):
    # ids are chosen, not hashed: the index layer never looks at signatures.  Leading byte follows the author so that ids starting
    # 00 and ff occur; the counter keeps them distinct.
    eid = PKB[pk] + "%062x" % n
    return Event(id=eid, pubkey=PK[pk], kind=kind, created_at=ts, tags=tags, content="", sig="00" * 64)


def universe():
    evs = []
    n = 0
    for pk in "07f":
        for kind in (1, 2, 256):
            for ts in (10, 20):
                n += 1
                evs.append(mk(pk, kind, ts, [], n))
    for val in ("", "a", "ab", "b"):
        for ts in (10, 20):
            n += 1
            evs.append(mk("7", 1, ts, [["e", val]], n))
    n += 1
    evs.append(mk("7", 1, 20, [["e", "a"], ["e", "b"]], n))   # carries two values of one tag
    n += 1
    evs.append(mk("0", 0, 15, [["p", PK["0"]]], n))
    n += 1
    evs.append(mk("f", 2, 15, [["e", "a"]], n))
    # appended after the first 29 so that earlier indices (recorded cases) keep their meaning
    n += 1
    evs.append(mk("7", 1, 10, [["e", "A"]], n))                       # differs from 'a' by case only
    n += 1
    evs.append(mk("7", 1, 20, [["e", META]], n))                      # quotes, backslash, SQL/Python metacharacters
    n += 1
    evs.append(mk("0", 1, 20, [["e", "\u00e9\u4e2d"]], n))               # non-ASCII
    n += 1
    evs.append(mk("f", 1, 10, [["e", "a"], ["p", PK["0"]]], n))       # two tag names
    n += 1
    evs.append(mk("7", 1, 20, [["delegation", PK["0"], "kind=1", "00" * 64]], n))   # NIP-26: posted by 7f.. on behalf of 00..
    n += 1
    evs.append(mk("0", 1, 15, [["e", "a"], ["e", "b"], ["p", PK["0"]]], n))       # several values of one name AND another name
    n += 1
    evs.append(mk("7", 1, 10, [["e", "a\x00b"]], n))                                # NUL inside a tag value (the index key separator)
    return evs


U = universe()
ID0 = U[0].id          # author 00, kind 1, ts 10
IDF = U[17].id         # author ff, kind 256, ts 20
WINDOWS = [{}, {"since": 15}, {"until": 15}, {"since": 5, "until": 25}, {"since": 10}, {"until": 20}, {"since": 0}, {"since": 12, "until": 18}, {"until": 0}, {"since": 5, "until": 15}]
BASES = [
    {"kinds": [1]}, {"kinds": [2]}, {"kinds": [1, 2]}, {"kinds": [256]}, {"kinds": [0]}, {"kinds": [0, 256]},
    {"authors": [PK["0"]]}, {"authors": [PK["7"]]}, {"authors": [PK["f"]]}, {"authors": [PK["7"], PK["f"]]}, {"authors": [PK["0"], PK["f"]]},
    {"authors": [PK["7"]], "kinds": [1]}, {"authors": [PK["0"]], "kinds": [1]}, {"authors": [PK["0"], PK["f"]], "kinds": [1, 2]},
    {"#e": ["a"]}, {"#e": ["b"]}, {"#e": ["a", "b"]}, {"#e": ["ab"]}, {"#e": [""]}, {"#e": ["a"], "kinds": [1]}, {"#e": ["a"], "authors": [PK["7"]]},
    {"#e": ["a"], "kinds": [2], "authors": [PK["f"]]},
    {"#p": [PK["0"]]},
    # plans in which the author+kind index is scanned BEFORE the tag index (cardinality x number of matches decides the order)
    {"authors": [PK["0"], PK["7"], PK["f"]], "kinds": [0, 1, 2, 256], "#e": ["a", "b"]},
    {"authors": [PK["0"], PK["7"], PK["f"]], "kinds": [1, 2], "#e": ["a"]},
    {"#e": ["A"]}, {"#e": [META]}, {"#e": ["\u00e9\u4e2d"]}, {"#e": ["a"], "#p": [PK["0"]]}, {"#e": ["a", "b"], "#p": [PK["0"]]}, {"#e": ["a", "A"]},
    {"ids": [ID0], "authors": [PK["0"]]}, {"ids": [IDF], "authors": [PK["0"]]},
    # empty lists match nothing (NIP-01), whatever stands next to them
    {"authors": []}, {"kinds": []}, {"authors": [], "ids": [ID0]}, {"kinds": [], "authors": [PK["0"]]}, {"ids": [], "kinds": [1]},
    {"ids": [ID0]}, {"ids": [IDF]}, {"ids": [ID0, IDF]}, {"ids": [ID0], "kinds": [1]}, {"ids": [ID0], "kinds": [2]},
]
LIMITS = [None, 0, 1, 2, 5]          # None: no "limit" key; 5: above the configured cap of 2


PAIRBASE = [{"kinds": [1]}, {"kinds": [2]}, {"authors": [PK["7"]]}, {"#e": ["a"]}, {"ids": [ID0]}, {"since": 15}]
PAIRS = [((fa, la), (fb, lb)) for fa in PAIRBASE for fb in PAIRBASE if fa is not fb for la in (None, 1) for lb in (None, 1)]


def filters():
    fs = []
    for b in BASES:
        for w in WINDOWS:
            f = dict(b)
            f.update(w)
            fs.append(f)
    fs.append({"since": 5, "until": 25})
    fs.append({"since": 15})
    fs.append({"until": 15})
    return fs


F = filters()


def oracle_fields(f, ev, may=True):
    """NIP-01 matching of the non-time fields (a condition with an empty list is satisfied by no event).  may=True: the event MAY be returned (author or NIP-26 delegator, as C01 allows);
    may=False: it MUST be returned (author only -- delegation support is optional)"""
    if "kinds" in f and ev.kind not in f["kinds"]:
        return False
    if "authors" in f and ev.pubkey not in f["authors"]:
        if not (may and any(len(t) > 1 and t[0] == "delegation" and t[1] in f["authors"] for t in ev.tags)):
            return False
    if "ids" in f and ev.id not in f["ids"]:
        return False
    for k, vals in f.items():
        if k.startswith("#"):
            if not any(len(t) > 1 and t[0] == k[1:] and t[1] in vals for t in ev.tags):
                return False
    return True


def in_window(f, ev, strict):
    s, u = f.get("since"), f.get("until")
    if strict:
        return (s is None or ev.created_at > s) and (u is None or ev.created_at < u)
    return (s is None or ev.created_at >= s) and (u is None or ev.created_at <= u)


class KVBackend:
    name = "kv"

    def load(self, events):
        self.env = build_env(events)

    def query(self, f, limit=None):
        return run_query(self.env, f, limit)[0]

    def query_multi(self, fs):
        # the relay's path: executor -> planner(all filters) -> execute_one_plan per plan
        plans = kv.planner([NostrQuery.model_validate(dict(q)) for q in fs], log=None)
        out = []
        for plan in plans:
            out.extend(kv.execute_one_plan(self.env, plan, _Log())[1])
        return out


class SQLBackend:
    """the SQL backend: events are stored through the real DBStorage.add_event (validators switched off: the ids of the
    universe are chosen, not hashed), the statement is the text the real Subscription.build_query assembles for the filter, run
    on the same sqlite file"""
    name = "sql"

    def __init__(self):
        import asyncio
        import shutil
        import sqlite3
        import tempfile
        from nostr_relay.storage.db import DBStorage
        from nostr_relay.storage import get_metadata
        self.loop = asyncio.new_event_loop()
        self.dir = tempfile.mkdtemp(prefix="qenum_", dir="/dev/shm" if os.path.isdir("/dev/shm") else None)
        import atexit
        atexit.register(shutil.rmtree, self.dir, True)
        self.st = DBStorage({"sqlalchemy.url": "sqlite+aiosqlite:///%s/db.sqlite3" % self.dir})

        async def setup():
            await self.st.setup()
            async with self.st.db.begin() as conn:
                await conn.run_sync(get_metadata().create_all)

            async def ok(event, config):
                return True
            self.st.validate_event = ok
        self.loop.run_until_complete(setup())
        self.conn = sqlite3.connect("%s/db.sqlite3" % self.dir, isolation_level=None)
        self.queue = asyncio.Queue()

    def load(self, events):
        self.conn.execute("DELETE FROM tags")
        self.conn.execute("DELETE FROM events")

        async def add():
            for ev in events:
                await self.st.add_event(ev.to_json_object())
        self.loop.run_until_complete(add())

    def query(self, f, limit=None):
        q = dict(f)
        if limit is not None:
            q["limit"] = limit
        return self.query_multi([q])

    def query_multi(self, fs):
        sub = self.st.subscription_class(self.st, "", [NostrQuery.model_validate(dict(q)) for q in fs], queue=self.queue)
        if not sub.prepare():
            return []
        rows = self.conn.execute(str(sub.query)).fetchall()
        return [_Row(r) for r in rows]


class _Row:
    def __init__(self, r):
        self.id = bytes(r[0]).hex()
        self.created_at = r[1]


BACKEND = None


def backend():
    global BACKEND
    if BACKEND is None:
        BACKEND = SQLBackend() if os.environ.get("QENUM_BACKEND", "kv") == "sql" else KVBackend()
    return BACKEND


_INITIAL = None


def initial_records():
    """what a freshly set-up LMDBStorage contains before any event: obtained by running the REAL LMDBStorage.setup() once per process
    (it writes the end-of-database record the scanner's seek logic relies on)"""
    global _INITIAL
    if _INITIAL is None:
        import asyncio

        async def boot():
            st = kv.LMDBStorage({"class": "nostr_relay.storage.kv.LMDBStorage", "path": "/nonexistent-in-memory"})
            await st.setup()
            data = dict(st.db.data)
            await st.close()
            return data
        _INITIAL = asyncio.run(boot())
    return _INITIAL


def build_env(events):
    env = lmdb.open(path="mem")
    env.data.update(initial_records())
    with env.begin(write=True) as txn:
        for ev in events:
            for index in kv.INDEXES.values():
                if index.enabled and not isinstance(index, kv.FTSIndex):
                    index.write(ev, txn)
    return env


class _Log:
    errors = 0

    def exception(self, *a, **k):
        _Log.errors += 1

    def __getattr__(self, n):
        return lambda *a, **k: None


def run_query(env, f, limit=None):
    q = dict(f)
    if limit is not None:
        q["limit"] = limit
    plans = kv.planner([NostrQuery.model_validate(dict(q))], log=None)
    out = []
    for plan in plans:
        _, events = kv.execute_one_plan(env, plan, _Log())
        out.extend(events)
    return out, len(plans)


def stronger(fa, fb):
    """fb demands at least what fa demands (same values or subsets, window inside)"""
    for k, v in fa.items():
        if k in ("since", "until"):
            continue
        if k not in fb or not set(fb[k]) <= set(v):
            return False
    sa, sb = fa.get("since"), fb.get("since")
    if sa is not None and (sb is None or sb < sa):
        return False
    ua, ub = fa.get("until"), fb.get("until")
    if ua is not None and (ub is None or ub > ua):
        return False
    return True


def single_value_split(f):
    """(field, [filters with one value each]) for the first multi-valued field"""
    for k, v in f.items():
        if k not in ("since", "until") and len(v) > 1:
            return k, [dict(f, **{k: [x]}) for x in v]
    return None, []


FKEY = {json.dumps(f, sort_keys=True): i for i, f in enumerate(F)}
STRONGER = [[j for j, fb in enumerate(F) if j != i and stronger(fa, fb)] for i, fa in enumerate(F)]
SPLIT = []
for f in F:
    k, parts = single_value_split(f)
    idx = [FKEY.get(json.dumps(p, sort_keys=True)) for p in parts]
    SPLIT.append(idx if parts and all(i is not None for i in idx) else None)


def describe(evs):
    return [(e.id[:2] + ".." + e.id[-2:], e.pubkey[:2], e.kind, e.created_at, e.tags) for e in evs]


def check_store(store):
    """all checks that involve this store (and its sub-stores minus one event); returns list of failure records"""
    evs = [U[i] for i in store]
    be = backend()
    be.load(evs)
    fails = []
    res = []
    ncases = 0
    for fi, f in enumerate(F):
        got = be.query(f)
        ncases += 1
        ids = [e.id for e in got]
        res.append(ids)
        must = {e.id for e in evs if oracle_fields(f, e, False) and in_window(f, e, True)}
        may = {e.id for e in evs if oracle_fields(f, e) and in_window(f, e, False)}
        missing, extra = must - set(ids), set(ids) - may
        dup = {i for i in ids if ids.count(i) > 1}
        base = {"filter": f, "store": describe(evs), "returned": [i[:2] + ".." + i[-2:] for i in ids]}
        if extra:
            fails.append(("C01", "returns-non-matching", dict(base, extra=len(extra)), f, store))
        if missing and len(may) <= MAXL:
            fails.append(("C02", "missing", dict(base, missing=[i[:2] + ".." + i[-2:] for i in sorted(missing)]), f, store))
        if len(ids) > MAXL:
            fails.append(("C12", "more-than-configured-cap", dict(base, cap=MAXL), f, store))
        if len(may) > MAXL and ids:
            left0 = [e for e in evs if e.id in must and e.id not in ids]
            if any(e.created_at > min(x.created_at for x in got) for e in left0):
                fails.append(("C12", "not-newest", dict(base, limit=None, sent=[i[:2] + ".." + i[-2:] for i in ids]), f, store))
        if dup:
            fails.append(("C02", "twice", dict(base, twice=[i[:2] + ".." + i[-2:] for i in sorted(dup)]), f, store))
        # C12: limits
        for lim in LIMITS[1:]:
            gl = be.query(f, lim)
            ncases += 1
            gids = [e.id for e in gl]
            if len(gids) > min(lim, MAXL):
                fails.append(("C12", "more-than-limit", dict(base, limit=lim, cap=MAXL, returned_l=len(gids)), f, store))
            sent_ts = [e.created_at for e in gl]
            if sent_ts:
                left = [e for e in evs if e.id in must and e.id not in gids]
                if any(e.created_at > min(sent_ts) for e in left):
                    fails.append(("C12", "not-newest", dict(base, limit=lim, sent=[i[:2] + ".." + i[-2:] for i in gids]), f, store))
            if len(must) <= min(lim, MAXL) and len(may) == len(must) and not missing and set(gids) != set(ids):
                fails.append(("C12", "truncates-under-limit", dict(base, limit=lim), f, store))
    # C05: live matching (BaseSubscription.check_event, the real function) against the oracle and against the stored answer
    if len(store) == 1:
        ev = evs[0]
        for fi, f in enumerate(F):
            live = bool(BaseSubscription.check_event(None, ev, [NostrQuery.model_validate(dict(f))]))
            ncases += 1
            strict_in = oracle_fields(f, ev, False) and in_window(f, ev, True)
            may_in = oracle_fields(f, ev, True) and in_window(f, ev, False)
            on_bound = ev.created_at in (f.get("since"), f.get("until"))
            base = {"filter": f, "store": describe(evs), "live": live, "stored": bool(res[fi])}
            if live and not may_in:
                fails.append(("C05", "live-pushes-non-matching", base, f, store))
                fails.append(("C01", "live-pushes-non-matching", base, f, store))     # an EVENT frame for a non-matching event
            if strict_in and not live:
                fails.append(("C05", "live-misses-matching", base, f, store))
            if not on_bound and live != bool(res[fi]):
                fails.append(("C05", "live-disagrees-with-stored", base, f, store))
    # an explicit "limit": null must not lift the configured cap
    for fi, f in enumerate(F):
        if fi % len(WINDOWS) or fi >= len(BASES) * len(WINDOWS):
            continue          # the unwindowed variant of every base filter
        gn = be.query_multi([dict(f, limit=None)])
        ncases += 1
        if len(gn) > MAXL:
            fails.append(("C12", "null-limit-exceeds-cap", {"filter": dict(f, limit=None), "store": describe(evs), "returned": len(gn), "cap": MAXL}, f, store))
    # several filters in one REQ (C02: between one and k times; C12: each filter's own limit)
    for (fa, la), (fb, lb) in PAIRS:
        qa, qb = dict(fa), dict(fb)
        if la is not None:
            qa["limit"] = la
        if lb is not None:
            qb["limit"] = lb
        got = be.query_multi([qa, qb])
        ncases += 1
        ids = [e.id for e in got]
        musts = [{e.id for e in evs if oracle_fields(f, e, False) and in_window(f, e, True)} for f in (fa, fb)]
        mays = [{e.id for e in evs if oracle_fields(f, e) and in_window(f, e, False)} for f in (fa, fb)]
        base = {"filters": [qa, qb], "store": describe(evs), "returned": [i[:2] + ".." + i[-2:] for i in ids]}
        if set(ids) - (mays[0] | mays[1]):
            fails.append(("C01", "multi-returns-non-matching", base, qa, store))
        for i in set(ids):
            if ids.count(i) > (i in mays[0]) + (i in mays[1]):
                fails.append(("C02", "multi-more-than-k-times", base, qa, store))
        for k, lim in ((0, la), (1, lb)):
            lim = MAXL if lim is None else min(lim, MAXL)
            if len(mays[k]) <= lim and musts[k] - set(ids):
                fails.append(("C02", "multi-missing-under-own-limit", dict(base, which=k), (qa, qb)[k], store))
            only = [i for i in ids if i in mays[k] and i not in mays[1 - k]]
            if len(set(only)) > lim:
                fails.append(("C12", "multi-more-than-own-limit", dict(base, which=k), (qa, qb)[k], store))
    # C11 monotone / union on this store
    nmay = [sum(1 for e in evs if oracle_fields(f, e) and in_window(f, e, False)) for f in F]
    for fi, f in enumerate(F):
        if nmay[fi] > MAXL:
            continue      # "when no limit truncates": the configured cap cuts this answer, relations between answers do not apply
        for fj in STRONGER[fi]:
            if not set(res[fj]) <= set(res[fi]):
                fails.append(("C11", "stronger-filter-returns-more", {"filter": f, "stronger": F[fj], "store": describe(evs)}, F[fj], store))
        if SPLIT[fi]:
            un = set()
            for j in SPLIT[fi]:
                un |= set(res[j])
            if un != set(res[fi]):
                fails.append(("C11", "not-union-of-single-values", {"filter": f, "store": describe(evs), "union": len(un), "multi": len(set(res[fi]))}, f, store))
    # C11 neighbour independence: store minus one definitely-non-matching event
    if len(store) >= 1:
        for k in range(len(store)):
            sub = store[:k] + store[k + 1:]
            x = U[store[k]]
            be.load([U[i] for i in sub])
            for fi, f in enumerate(F):
                if oracle_fields(f, x) and in_window(f, x, False):
                    continue
                r = be.query(f)
                ncases += 1
                if set(e.id for e in r) != set(res[fi]):
                    fails.append(("C11", "neighbour-changes-answer", {"filter": f, "store": describe([U[i] for i in sub]), "added": describe([x]),
                                                                       "before": len(r), "after": len(res[fi])}, f, store))
    nontriv = sum(1 for r in res if r)
    return ncases, fails, _Log.errors, nontriv


def classify(backend_name, prop, kind, f, store):
    """id of the recorded finding class (known_findings.json, "bounded_class") this failure belongs to, or None (= unlisted)"""
    from bounded.kv_findings import CLASSES
    for name, be, pred in CLASSES:
        if be == backend_name and pred(prop, kind, f, [U[i] for i in store]):
            return name
    return None


def SAMPLES():
    be = backend()
    out = []
    for store, fi in (((0, 19, 26), 16), ((3, 12, 28), 2), ((5, 17), 25)):
        evs = [U[i] for i in store]
        be.load(evs)
        out.append({"store": describe(evs), "filter": F[fi], "returned": [e.id[:2] + ".." + e.id[-2:] for e in be.query(F[fi])]})
    return out


def run_case(case):
    """re-run one recorded failing case on the tree under PYVC_REPO; exit 1 while it still fails"""
    os.environ["QENUM_BACKEND"] = case["backend"]
    store = tuple(case["store_indices"])
    _, fails, _, _ = check_store(store)
    want = json.dumps(case.get("filter") or case.get("filters"), sort_keys=True)
    hit = [f for f in fails if json.dumps(f[2].get("filter") or f[2].get("filters"), sort_keys=True) == want and f[1] == case["kind"]]
    for f in hit[:3]:
        print("STILL-FAILS", f[0], f[1], json.dumps(f[2], default=str))
    if not hit:
        print("case no longer fails")
    return 1 if hit else 0


def main():
    if len(sys.argv) > 2 and sys.argv[1] == "--case":
        sys.path.insert(0, ROOT)
        return run_case(json.load(open(sys.argv[2])))
    ap = argparse.ArgumentParser()
    ap.add_argument("--max-store", type=int, default=2)
    ap.add_argument("--jobs", type=int, default=int(os.environ.get("PYVC_JOBS", "16")))
    ap.add_argument("--json")
    ap.add_argument("--backend", default="kv", choices=["kv", "sql"])
    a = ap.parse_args()
    os.environ["QENUM_BACKEND"] = a.backend
    sys.path.insert(0, ROOT)
    t0 = time.time()
    stores = [s for n in range(0, a.max_store + 1) for s in itertools.combinations(range(len(U)), n)]
    if a.max_store < 3:
        # a few stores with more matching events than the configured cap, so that the cap itself is exercised in the quick tier
        stores += [(0, 1, 18), (6, 7, 12), (20, 21, 26), (0, 6, 12), (20, 26, 28)]
    cases = 0
    nontrivial = 0
    classes = {}
    errors = 0
    with ProcessPoolExecutor(a.jobs) as ex:
        for ncases, fails, errs, nt in ex.map(check_store, stores, chunksize=8):
            cases += ncases
            nontrivial += nt
            errors += errs
            for prop, kind, ex_, f, store in fails:
                cls = classify(a.backend, prop, kind, f, store)
                key = (prop, kind, cls or "UNLISTED")
                rec = classes.setdefault(key, {"count": 0, "example": dict(ex_, store_indices=list(store), backend=a.backend)})
                rec["count"] += 1
    out = {"backend": a.backend, "bound": "all stores of <= %d events out of a universe of %d (%d stores), %d filters x limits %s" % (a.max_store, len(U), len(stores), len(F), LIMITS),
           "cases": cases, "nonempty_answers": nontrivial, "samples": SAMPLES(), "seconds": round(time.time() - t0, 1), "swallowed_exceptions": errors,
           "failure_classes": [{"property": k[0], "kind": k[1], "class": k[2], "count": v["count"], "example": dict(v["example"], kind=k[1])} for k, v in sorted(classes.items())]}
    if a.json:
        json.dump(out, open(a.json, "w"), indent=1, default=str)
    for c in out["failure_classes"]:
        print("FAIL", c["class"], c["property"], c["kind"], c["count"], json.dumps(c["example"], default=str))
    print(json.dumps({k: v for k, v in out.items() if k != "failure_classes"}))
    return 0


if __name__ == "__main__":
    sys.exit(main())
