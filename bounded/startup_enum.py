"""
BOUNDED stand-in (never counted as proved) for a configuration clause of C12: the cap a REQ's limit is clamped to is the CONFIGURED
max_limit.  `BaseSubscription.__init__(default_limit=Config.max_limit)` and `NostrQuery.limit = Field(default=Config.max_limit)` read the
configuration when `storage.base` is imported, so the clause holds only while every documented entry point loads the configuration
before that import.  Each entry point is started in a fresh interpreter with a configuration file that sets max_limit to 3, and the
defaults the SQL query builder will use are read back.

usage: startup_enum.py [--json OUT]
"""
import argparse
import json
import os
import subprocess
import sys
import tempfile

ROOT = os.path.dirname(os.path.dirname(os.path.abspath(__file__)))
REPO = os.environ.get("PYVC_REPO", "/repo")

PROBE = r'''
import sys, json, inspect
sys.path.insert(0, %(repo)r)
conf = %(conf)r
entry = %(entry)r
if entry == "web.create_app":
    from nostr_relay.web import create_app
    create_app(conf)
elif entry == "config-then-storage":
    from nostr_relay.config import Config
    Config.load(conf)
    from nostr_relay.storage import get_storage
    get_storage()
elif entry == "web.run_with_uvicorn (import + load)":
    import nostr_relay.web as web
    web.Config.load(conf)
    from nostr_relay.storage import get_storage
    get_storage()
from nostr_relay.config import Config
from nostr_relay.storage.base import BaseSubscription, NostrQuery
out = {"configured": Config.max_limit,
       "subscription_default_limit": inspect.signature(BaseSubscription.__init__).parameters["default_limit"].default,
       "query_default_limit": NostrQuery().limit}
print("RESULT " + json.dumps(out))
'''


def main():
    ap = argparse.ArgumentParser()
    ap.add_argument("--json")
    a = ap.parse_args()
    import yaml
    base = yaml.safe_load(open(os.path.join(REPO, "nostr_relay", "config.yaml")))
    d = tempfile.mkdtemp(prefix="startup_")
    fails, samples, cases = [], [], 0
    try:
        base["max_limit"] = 3
        base["storage"] = {"sqlalchemy.url": "sqlite+aiosqlite:///%s/db.sqlite3" % d}
        base.pop("logging", None)
        conf = os.path.join(d, "conf.yaml")
        yaml.safe_dump(base, open(conf, "w"))
        for entry in ("web.create_app", "config-then-storage", "web.run_with_uvicorn (import + load)"):
            cases += 1
            p = subprocess.run([sys.executable, "-c", PROBE % {"repo": REPO, "conf": conf, "entry": entry}], capture_output=True, text=True, timeout=120, cwd=d)
            line = [l for l in p.stdout.splitlines() if l.startswith("RESULT ")]
            if not line:
                fails.append(("entry-point-did-not-start", {"entry": entry, "stderr": p.stderr[-300:]}))
                continue
            r = json.loads(line[0][7:])
            samples.append(dict(r, entry=entry))
            if r["configured"] != 3 or r["subscription_default_limit"] != 3 or r["query_default_limit"] != 3:
                fails.append(("configured-max_limit-not-in-effect", dict(r, entry=entry)))
    finally:
        import shutil
        shutil.rmtree(d, True)
    classes = {}
    for kind, ex in fails:
        rec = classes.setdefault(kind, {"count": 0, "example": ex})
        rec["count"] += 1
    out = {"cases": cases, "samples": samples, "failure_classes": [{"kind": k, "count": v["count"], "example": v["example"]} for k, v in sorted(classes.items())]}
    if a.json:
        json.dump(out, open(a.json, "w"), indent=1, default=str)
    for c in out["failure_classes"]:
        print("FAIL", c["kind"], c["count"], json.dumps(c["example"], default=str)[:300])
    print(json.dumps({"cases": cases, "samples": samples}))
    return 0


if __name__ == "__main__":
    sys.exit(main())
