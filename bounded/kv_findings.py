"""
Predicates of the recorded finding classes of the bounded query-path check (ids as in /verif/known_findings.json).
A failing case that satisfies none of them is an unlisted violation.  (name, backend, predicate(prop, kind, filter, store))
"""


def _multi_value(f):
    return any(k not in ("since", "until", "limit") and len(v) > 1 for k, v in f.items())


def _chained(f):
    # the planner chains indexes (MultiIndex, whose intermediate result is a set) when tags come together with authors/kinds
    # or several tag names are used; ids always win alone
    if "ids" in f:
        return False
    groups = 0
    if "authors" in f or "kinds" in f:
        groups += 1
    if any(k.startswith("#") for k in f):
        groups += 1
    return groups > 1


def k2_not_newest(prop, kind, f, store):
    """K2: plans that scan several match values one after the other (newest-first only inside each value), or that chain
    indexes through a set, are not newest-first across values: a limit keeps the wrong events"""
    return prop == "C12" and kind == "not-newest" and (_multi_value(f) or _chained(f))


def k3_missing(prop, kind, f, store):
    """K3: one LIMIT clause (the last filter's) for the whole REQ: a filter without its own truncation loses events"""
    return prop == "C02" and kind == "multi-missing-under-own-limit"


def k3_more(prop, kind, f, store):
    """K3: ... and a filter with a small limit receives more than that"""
    return prop == "C12" and kind == "multi-more-than-own-limit"


CLASSES = [
    ("C12-kv-multi-value-plan-not-newest-first", "kv", k2_not_newest),
    ("C02-sql-one-limit-for-all-filters", "sql", k3_missing),
    ("C12-sql-one-limit-for-all-filters", "sql", k3_more),
]


def k7a_delegation(prop, kind, f, store):
    """K7a: stored SQL matching honours NIP-26 delegation for `authors`, live matching does not"""
    return prop == "C05" and kind == "live-disagrees-with-stored" and "authors" in f and len(store) == 1 and \
        store[0].pubkey not in f["authors"] and any(len(t) > 1 and t[0] == "delegation" and t[1] in f["authors"] for t in store[0].tags)


CLASSES.append(("C05-sql-live-ignores-delegated-author", "sql", k7a_delegation))
