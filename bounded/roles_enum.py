"""
BOUNDED stand-in (never counted as proved) for the role-storage clause of C14: the roles can_do() is given are the ones assigned last.
Every sequence of at most 3 operations out of {assign 'a' / 'wq' / '' to P1, assign 'a' to P2, read P1, read P2} followed by a read of
both keys, on the real DBStorage (sqlite): every read returns the set of the letters assigned last, or the default roles if none.

usage: roles_enum.py [--json OUT]
"""
import argparse
import asyncio
import itertools
import json
import logging
import os
import shutil
import sqlite3
import sys
import tempfile

ROOT = os.path.dirname(os.path.dirname(os.path.abspath(__file__)))
sys.path.insert(0, os.environ.get("PYVC_REPO", "/repo"))
logging.disable(logging.CRITICAL)

from nostr_relay.storage.db import DBStorage  # noqa: E402
from nostr_relay.storage import get_metadata  # noqa: E402

P1, P2 = "11" * 32, "22" * 32
OPS = [("set", P1, "a"), ("set", P1, "WQ"), ("set", P1, ""), ("set", P2, "a"), ("get", P1, None), ("get", P2, None)]


async def run():
    d = tempfile.mkdtemp(prefix="roles_", dir="/dev/shm" if os.path.isdir("/dev/shm") else None)
    fails, cases, samples = [], 0, []
    try:
        url = "sqlite+aiosqlite:///%s/db.sqlite3" % d
        st0 = DBStorage({"sqlalchemy.url": url})
        await st0.setup()
        async with st0.db.begin() as conn:
            await conn.run_sync(get_metadata().create_all)
        await st0.close()
        raw = sqlite3.connect("%s/db.sqlite3" % d, isolation_level=None)
        tables = [r[0] for r in raw.execute("select name from sqlite_master where type='table'")]
        for n in range(0, 4):
            for seq in itertools.product(OPS, repeat=n):
                for t in tables:
                    raw.execute("DELETE FROM %s" % t)
                st = DBStorage({"sqlalchemy.url": url})      # a fresh storage object (one relay process) per history
                await st.setup()
                default = st.authenticator.default_roles
                state = {}
                trace = []
                for (op, pk, roles) in list(seq) + [("get", P1, None), ("get", P2, None)]:
                    cases += 1
                    if op == "set":
                        await st.set_auth_roles(pk, roles)
                        state[pk] = set(roles.lower())
                        trace.append("assign %r to %s" % (roles, pk[:2]))
                    else:
                        got = await st.get_auth_roles(pk)
                        want = state.get(pk, default)
                        trace.append("read %s -> %s" % (pk[:2], sorted(got)))
                        if set(got) != set(want):
                            fails.append(("read-returns-other-roles-than-assigned-last", {"history": list(trace), "expected": sorted(want), "got": sorted(got)}))
                            break
                if len(samples) < 3 and n == 3 and seq[0][0] == "set" and seq[2][0] == "set":
                    samples.append({"history": trace})
                await st.close()
    finally:
        shutil.rmtree(d, True)
    return cases, fails, samples


def main():
    ap = argparse.ArgumentParser()
    ap.add_argument("--json")
    a = ap.parse_args()
    cases, fails, samples = asyncio.run(run())
    classes = {}
    for kind, ex in fails:
        rec = classes.setdefault(kind, {"count": 0, "example": ex})
        rec["count"] += 1
    out = {"cases": cases, "samples": samples, "failure_classes": [{"kind": k, "count": v["count"], "example": v["example"]} for k, v in sorted(classes.items())]}
    if a.json:
        json.dump(out, open(a.json, "w"), indent=1, default=str)
    for c in out["failure_classes"]:
        print("FAIL", c["kind"], c["count"], json.dumps(c["example"], default=str)[:400])
    print(json.dumps({"cases": cases}))
    return 0


if __name__ == "__main__":
    sys.exit(main())
