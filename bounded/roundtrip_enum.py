"""
BOUNDED stand-in (never counted as proved) for the C04 clauses no contract reaches: the stored row is the accepted event and what
is served re-serializes to exactly what was accepted.

Real DBStorage.add_event (validators switched off: ids are not hashed) -> real stored query (run_single_query -> event_from_tuple)
-> real util.event_as_json, for a fixed set of events whose content / tag values / sub ids contain the characters JSON, SQL and
python string handling are sensitive to.  Checked: the event read back equals the submitted one field for field; the EVENT frame
parses as JSON and equals ["EVENT", sub_id, event]; the same for the live path (event_as_json on the submitted event).

usage: roundtrip_enum.py [--json OUT]     prints FAIL lines and a JSON summary
"""
import argparse
import asyncio
import json
import logging
import os
import shutil
import sys
import tempfile

ROOT = os.path.dirname(os.path.dirname(os.path.abspath(__file__)))
sys.path.insert(0, os.environ.get("PYVC_REPO", "/repo"))
logging.disable(logging.CRITICAL)

from aionostr.event import Event  # noqa: E402
from nostr_relay.storage.db import DBStorage  # noqa: E402
from nostr_relay.storage import get_metadata  # noqa: E402
from nostr_relay.util import event_as_json  # noqa: E402
from nostr_relay.web import ViewEventResource  # noqa: E402
import types  # noqa: E402

TEXTS = ["", "plain", "quote\" and \\ backslash", "single ' quote", "new\nline\ttab\rcr", "ctrl\x01\x1f\x7f", "nul\x00inside", "é中文",
         "non-BMP \U0001F600 \U00010000", "퟿", "</script>  ", "%s %d {} {0} $1", "x' OR 1=1 --", "[\"EVENT\"]", "\\u0041 \\n"]
SUBIDS = ["s", "", "a\"b", "a\\b", "é", "new\nline", "x" * 64]
TAGSETS = [[], [["e", "00" * 32]], [["t", ""]], [["t", "quote\"", "third \\ item"]], [["amount", 1000]], [["n", -5, 0]], [["a"], ["b", "x", "y", "z"]],
           [["t", "中"], ["t", "nul\x00"]], [["big", 2 ** 63 - 1]],
           # integers beyond 64 bits in positions the SQL tag table does not bind (seed C04-e: a decoder that turns them into floats)
           [["x", "v", 2 ** 64]], [["x", "v", 2 ** 64 + 1, -2 ** 63 - 1]], [["x", "v", 10 ** 30, 2 ** 64 - 1]]]


def same(a, b):
    """equal as JSON texts: 2**64 and 1.8446744073709552e+19 compare equal in Python but are different JSON numbers"""
    return json.dumps(a, sort_keys=True) == json.dumps(b, sort_keys=True)


def events():
    out = []
    n = 0
    for c in TEXTS:
        n += 1
        out.append(Event(id="%064x" % n, pubkey="ab" * 32, kind=1, created_at=1000 + n, tags=[], content=c, sig="cd" * 64))
    for t in TAGSETS:
        n += 1
        out.append(Event(id="%064x" % n, pubkey="ab" * 32, kind=1, created_at=1000 + n, tags=t, content="c", sig="cd" * 64))
    return out


async def run():
    d = tempfile.mkdtemp(prefix="rt_", dir="/dev/shm" if os.path.isdir("/dev/shm") else None)
    fails = []
    cases = 0
    samples = []
    try:
        st = DBStorage({"sqlalchemy.url": "sqlite+aiosqlite:///%s/db.sqlite3" % d})
        await st.setup()
        async with st.db.begin() as conn:
            await conn.run_sync(get_metadata().create_all)

        async def ok(event, config):
            return True
        st.validate_event = ok
        for ev in events():
            obj = ev.to_json_object()
            stored_ev, changed = await st.add_event(json.loads(json.dumps(obj)))
            if not changed:
                fails.append(("accepted-event-not-stored", {"event": obj}))
            back = None
            async for e2 in st.run_single_query([{"ids": [ev.id]}]):
                back = e2
            cases += 1
            if back is None:
                fails.append(("stored-event-not-returned", {"event": obj}))
                continue
            bobj = back.to_json_object()
            if not same(bobj, obj):
                fails.append(("stored-event-differs", {"accepted": obj, "served": bobj}))
            # HTTP /e/<id>: the real resource handler over the real storage; falcon serialises resp.media with the stdlib encoder
            cases += 1
            resp = types.SimpleNamespace(media=None)
            try:
                await ViewEventResource(st).on_get(None, resp, ev.id)
                served = json.loads(json.dumps(resp.media, ensure_ascii=False))
            except Exception as ex:  # noqa
                fails.append(("http-event-view-raised", {"event": obj, "error": repr(ex)[:100]}))
            else:
                if not same(served, json.loads(json.dumps(obj))):
                    fails.append(("http-event-view-differs-from-accepted-event", {"accepted": obj, "served": served}))
            # the live path serves the object add_event returns (what notify_all_connected is given), after everything add_event did to it
            for which, e in (("stored", back), ("live", stored_ev)):
                for sid in SUBIDS:
                    cases += 1
                    try:
                        frame = event_as_json(sid, e)
                    except Exception as ex:  # noqa
                        fails.append(("serializer-raised-the-event-is-never-sent", {"path": which, "sub_id": sid, "event": obj, "error": repr(ex)[:100]}))
                        continue
                    try:
                        parsed = json.loads(frame)
                    except Exception as ex:  # noqa
                        fails.append(("frame-is-not-json", {"path": which, "sub_id": sid, "event": obj, "frame": frame[:200], "error": str(ex)[:80]}))
                        continue
                    if not same(parsed, ["EVENT", sid, json.loads(json.dumps(obj))]):
                        fails.append(("frame-differs-from-accepted-event", {"path": which, "sub_id": sid, "accepted": obj, "frame": frame[:300]}))
                    elif len(samples) < 3 and which == "stored" and sid == "a\"b":
                        samples.append({"accepted": obj, "sub_id": sid, "frame": frame})
        await st.close()
    finally:
        shutil.rmtree(d, True)
    return cases, fails, samples


def main():
    ap = argparse.ArgumentParser()
    ap.add_argument("--json")
    a = ap.parse_args()
    cases, fails, samples = asyncio.run(run())
    classes = {}
    for kind, ex in fails:
        rec = classes.setdefault(kind, {"count": 0, "example": ex})
        rec["count"] += 1
    out = {"cases": cases, "events": len(events()), "sub_ids": len(SUBIDS), "samples": samples,
           "failure_classes": [{"kind": k, "count": v["count"], "example": v["example"]} for k, v in sorted(classes.items())]}
    if a.json:
        json.dump(out, open(a.json, "w"), indent=1, default=str)
    for c in out["failure_classes"]:
        print("FAIL", c["kind"], c["count"], json.dumps(c["example"], default=str)[:400])
    print(json.dumps({k: v for k, v in out.items() if k not in ("failure_classes", "samples")}))
    return 0


if __name__ == "__main__":
    sys.exit(main())
