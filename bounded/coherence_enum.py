"""
BOUNDED stand-in (never counted as proved) for the part of C10 the contracts view through an assumption: the contracts see tags as
lists of strings (assumption EV) and treat the write transaction's abort as an engine guarantee (assumption LMDB).  Here the real
LMDBStorage runs over the in-memory lmdb stand-in, and every history of up to DEPTH operations out of

    add(e) for 17 signed events (duplicate tags, integer / empty / NUL-carrying / 600-byte tag values, a multi-byte tag name, an integer
    tag name, one-item tags, replaceable and parameterised-replaceable pairs, kind-0 pair, a kind-5 deletion of own and foreign events,
    expired / unexpired / ephemeral events), delete_event(id) for three of them, one garbage-collector pass

is explored (states reached twice are explored once).  After every operation the whole keyspace is walked and compared with an
independent statement of the layout: the secondary entries (prefixes 0x01-0x09) must be EXACTLY the ones the stored records
(prefix 0x00) call for -- created_at, kind, author, author+kind and one per indexable tag, each suffixed NUL created_at NUL id --
and every index scanner must find an event iff its record exists.  For histories of up to FAULT_DEPTH operations the last operation
is also re-run with an injected engine error at its k-th put/delete, for every k: the keyspace must then be what it was before.

The writer loop (WriterThread.run) is the real one, run in this thread after each operation has been queued.

usage: coherence_enum.py [--json OUT]     (VERIF_TIER=thorough: one more operation per history)
"""
import argparse
import asyncio
import json
import logging
import os
import sys
import time

ROOT = os.path.dirname(os.path.dirname(os.path.abspath(__file__)))
sys.path.insert(0, os.path.join(ROOT, "witness"))
sys.path.insert(0, os.path.join(ROOT, "stubs"))
sys.path.insert(0, os.environ.get("PYVC_REPO", "/repo"))
logging.disable(logging.CRITICAL)

import lmdb  # noqa: E402  (the stand-in)
import msgpack  # noqa: E402  (the stand-in)
from _sql import make_event  # noqa: E402
from nostr_relay.storage import kv  # noqa: E402

NOW = int(time.time())
THOROUGH = os.environ.get("VERIF_TIER", "quick") == "thorough"
DEPTH = 5 if THOROUGH else 4
FAULT_DEPTH = 4 if THOROUGH else 3


def pool():
    e = {}
    e["dup"] = make_event(key=0, kind=1, created_at=1000, tags=[["t", "x"], ["t", "x"]], content="dup")
    e["int"] = make_event(key=0, kind=1, created_at=1001, tags=[["t", 1], ["t", "1"], ["e", ""], ["t", 10]], content="int")
    e["odd"] = make_event(key=1, kind=1, created_at=1000, tags=[["é", "v"], ["e", "a\x00b"], ["long", "ignored"], ["p"], ["t", "x"]], content="odd")
    e["r1"] = make_event(key=0, kind=10001, created_at=2000, tags=[["t", "x"]], content="r1")
    e["r2"] = make_event(key=0, kind=10001, created_at=3000, tags=[["t", "y"], ["p", "ab" * 32]], content="r2")
    e["p1"] = make_event(key=1, kind=30001, created_at=2000, tags=[["d", "a"], ["t", "x"]], content="p1")
    e["p2"] = make_event(key=1, kind=30001, created_at=3000, tags=[["d", "a"], ["t", "z"]], content="p2")
    e["p3"] = make_event(key=1, kind=30001, created_at=2500, tags=[["d", "b"]], content="p3")
    e["del"] = make_event(key=0, kind=5, created_at=5000, tags=[["e", e["dup"].id], ["e", e["int"].id], ["e", e["odd"].id]], content="")
    e["exp"] = make_event(key=2, kind=1, created_at=1000, tags=[["expiration", str(NOW - 1000)], ["t", "x"]], content="exp")
    e["fut"] = make_event(key=2, kind=1, created_at=1001, tags=[["expiration", str(NOW + 100000)], ["t", "x"]], content="fut")
    e["m1"] = make_event(key=2, kind=0, created_at=1000, tags=[], content="{}")
    e["m2"] = make_event(key=2, kind=0, created_at=2000, tags=[["p", "cd" * 32]], content="{\"name\":\"x\"}")
    e["eph"] = make_event(key=3, kind=20001, created_at=1000, tags=[["t", "x"]], content="eph")
    e["iname"] = make_event(key=3, kind=1, created_at=1000, tags=[["t", "q"], [7, "x"]], content="iname")
    e["big"] = make_event(key=3, kind=1, created_at=1001, tags=[["t", "q"], ["t", "v" * 600]], content="big")
    e["delegation"] = make_event(key=3, kind=1, created_at=1002, tags=[["delegation", "ab" * 32, "kind=1", "00" * 64], ["t", "x"]], content="dg")
    return e


POOL = pool()
OPS = [("add", n) for n in POOL] + [("del", "dup"), ("del", "r2"), ("del", "fut"), ("gc", None)]


def be4(n):
    return n.to_bytes(4, "big")


def indexable(tag):
    return len(tag) >= 2 and isinstance(tag[0], str) and (len(tag[0]) == 1 or tag[0] in ("expiration", "delegation"))


def expected_entries(ev):
    """the secondary entries the property's statement calls for, from the NIP-01 fields of one stored event (independent of kv.py)"""
    idb = bytes.fromhex(ev["id"])
    suffix = b"\x00" + be4(ev["created_at"]) + b"\x00" + idb
    pk = bytes.fromhex(ev["pubkey"])
    out = {
        b"\x01" + be4(ev["created_at"]) + suffix,
        b"\x02" + be4(ev["kind"]) + suffix,
        b"\x03" + pk + suffix,
        b"\x04" + pk + b"\x00" + be4(ev["kind"]) + suffix,
    }
    for tag in ev["tags"]:
        if indexable(tag):
            out.add(b"\x09" + tag[0].encode() + b"\x00" + str(tag[1]).encode() + suffix)
    return out


def records(data):
    out = {}
    for k, v in data.items():
        if k[:1] == b"\x00" and len(k) == 33:
            row = msgpack.unpackb(v, use_list=False)
            out[k[1:]] = {"id": row[1].hex(), "created_at": row[2], "kind": row[3], "pubkey": row[4].hex(), "tags": row[6]}
    return out


def coherence(data):
    """(kind, detail) problems of one keyspace"""
    recs = records(data)
    want = set()
    for r in recs.values():
        if r["id"] != bytes.fromhex(r["id"]).hex() or bytes.fromhex(r["id"]) not in recs:
            yield "record-under-a-key-that-is-not-its-id", {"id": r["id"]}
        want |= expected_entries(r)
    have = {k for k in data if b"\x01" <= k[:1] <= b"\x09"}
    for k in sorted(have - want):
        owner = k[-32:]
        yield ("dangling-index-entry" if owner not in recs else "entry-under-a-value-the-event-does-not-have"), {"key": k.hex(), "prefix": k[0]}
    for k in sorted(want - have):
        yield "record-without-its-index-entry", {"key": k.hex(), "prefix": k[0]}
    other = [k for k in data if not (k[:1] == b"\x00" and len(k) == 33) and not (b"\x01" <= k[:1] <= b"\x09") and k != b"\xee"]
    for k in other:
        yield "key-outside-the-documented-layout", {"key": k.hex()}


def access_paths(st, data):
    """every index scanner finds a pool event iff its record exists"""
    recs = records(data)
    with st.db.begin(buffers=True) as txn:
        for name, ev in POOL.items():
            idb = bytes.fromhex(ev.id)
            stored = idb in recs
            probes = [("ids", ev.id), ("created_at", ev.created_at), ("kinds", ev.kind), ("authors", ev.pubkey), ("authorkinds", (ev.pubkey, ev.kind))]
            for tag in ev.tags:
                if indexable(tag):
                    probes.append(("tags", (tag[0], str(tag[1]))))
            for iname, match in probes:
                try:
                    with kv.INDEXES[iname].scanner(txn, [match]) as sc:
                        found = idb in set(bytes(x) for x in sc)
                except Exception as e:  # noqa
                    yield "scanner-raised", {"event": name, "index": iname, "error": repr(e)[:100]}
                    continue
                if found != stored:
                    yield ("stored-event-not-found-through-an-index" if stored else "removed-event-still-found-through-an-index"), {"event": name, "index": iname, "match": repr(match)[:80]}


class Fault(lmdb.Error):
    pass


class Injector:
    """counts put/delete calls of write transactions; raises at the k-th"""

    def __init__(self):
        self.n = 0
        self.fail_at = None
        self.real_put = lmdb.Transaction.put
        self.real_delete = lmdb.Transaction.delete
        inj = self

        def put(txn, key, value, **kw):
            inj.tick()
            return inj.real_put(txn, key, value, **kw)

        def delete(txn, key, value=b""):
            inj.tick()
            return inj.real_delete(txn, key, value)

        lmdb.Transaction.put = put
        lmdb.Transaction.delete = delete

    def tick(self):
        self.n += 1
        if self.fail_at is not None and self.n == self.fail_at:
            raise Fault("injected engine error at write %d" % self.n)

    def arm(self, k):
        self.n = 0
        self.fail_at = k


async def apply(st, op):
    kind, arg = op
    if kind == "add":
        try:
            await st.add_event(POOL[arg].to_json_object())
        except Exception:  # refused: nothing queued
            pass
    elif kind == "del":
        await st.delete_event(POOL[arg].id)
    else:
        gc = kv.KVGarbageCollector(st)
        with st.db.begin() as txn:
            await gc.collect(txn)
    # the real writer loop, in this thread, until the queue is drained
    st.writer_queue.put(None)
    st.writer_thread.running = True
    st.writer_thread.run()


async def run():
    st = kv.LMDBStorage({"class": "nostr_relay.storage.kv.LMDBStorage", "path": "/nonexistent-in-memory"})
    await st.setup()
    st.writer_queue.put(None)
    st.writer_thread.join()
    inj = Injector()
    initial = dict(st.db.data)
    fails, stats = [], {"nodes": 0, "faults": 0, "states": 0, "max_records": 0}
    seen = set()

    def key_of(data, depth):
        return (frozenset(data.items()), depth)

    async def explore(data, hist):
        if len(hist) >= DEPTH:
            return
        for op in OPS:
            st.db.data = dict(data)
            inj.arm(None)
            await apply(st, op)
            after = dict(st.db.data)
            writes = inj.n
            stats["nodes"] += 1
            h2 = hist + [op]
            for k, d in coherence(after):
                fails.append((k, {"history": h2, **d}))
            for k, d in access_paths(st, after):
                fails.append((k, {"history": h2, **d}))
            stats["max_records"] = max(stats["max_records"], len(records(after)))
            if len(h2) <= FAULT_DEPTH:
                for fk in range(1, writes + 1):
                    st.db.data = dict(data)
                    inj.arm(fk)
                    await apply(st, op)
                    inj.arm(None)
                    stats["faults"] += 1
                    got = dict(st.db.data)
                    if got != data:
                        fails.append(("operation-half-applied-after-engine-error", {"history": h2, "failed_write": fk, "of": writes,
                                                                                     "keys_added": len(set(got) - set(data)), "keys_lost": len(set(data) - set(got))}))
                    for k, d in coherence(got):
                        fails.append((k, {"history": h2, "failed_write": fk, **d}))
            kk = key_of(after, len(h2))
            if kk in seen:
                continue
            seen.add(kk)
            stats["states"] += 1
            if len(fails) > 200:
                return
            await explore(after, h2)

    await explore(initial, [])
    st.db = None
    return stats, fails


def main():
    ap = argparse.ArgumentParser()
    ap.add_argument("--json")
    a = ap.parse_args()
    t0 = time.time()
    stats, fails = asyncio.run(run())
    classes = {}
    for kind, ex in fails:
        rec = classes.setdefault(kind, {"count": 0, "example": ex})
        rec["count"] += 1
    out = {"cases": stats["nodes"] + stats["faults"], "depth": DEPTH, "fault_depth": FAULT_DEPTH, "stats": stats, "seconds": round(time.time() - t0, 1),
           "samples": [{"operations": len(OPS), "histories_explored": stats["nodes"], "fault_injections": stats["faults"], "distinct_states": stats["states"],
                        "most_records_in_a_state": stats["max_records"]}],
           "failure_classes": [{"kind": k, "count": v["count"], "example": v["example"]} for k, v in sorted(classes.items())]}
    if a.json:
        json.dump(out, open(a.json, "w"), indent=1, default=str)
    for c in out["failure_classes"]:
        print("FAIL", c["kind"], c["count"], json.dumps(c["example"], default=str)[:400])
    print(json.dumps({k: out[k] for k in ("cases", "depth", "stats", "seconds")}))
    return 0


if __name__ == "__main__":
    sys.exit(main())
