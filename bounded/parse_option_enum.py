"""
BOUNDED stand-in (never counted as proved) for the configuration clause of C18: the rules the limiter enforces are the rules the
operator wrote.  RateLimiter.parse_option is run on every option string of 1..3 items out of a small alphabet (all interval
spellings, an exempt -1 rule, a 0 rule, repeated intervals) and compared with an independent parser: the same multiset of
(interval seconds, n) pairs, longest interval first.

usage: parse_option_enum.py [--json OUT]
"""
import argparse
import itertools
import json
import logging
import os
import sys

sys.path.insert(0, os.environ.get("PYVC_REPO", "/repo"))
logging.disable(logging.CRITICAL)
from nostr_relay.rate_limiter import RateLimiter  # noqa: E402

ITEMS = ["2/s", "3/second", "10/min", "5/minute", "100/hour", "7/hr", "-1/s", "-1/hour", "0/s", "1/m", "4/h", "2/sec"]
UNIT = {"s": 1, "second": 1, "sec": 1, "m": 60, "minute": 60, "min": 60, "h": 3600, "hour": 3600, "hr": 3600}


def expected(option):
    rules = []
    for item in option.split(","):
        n, unit = item.strip().split("/")
        rules.append((UNIT[unit.lower()], int(n)))
    return sorted(rules, reverse=True)


def main():
    ap = argparse.ArgumentParser()
    ap.add_argument("--json")
    a = ap.parse_args()
    rl = RateLimiter({})
    fails, cases, samples = [], 0, []
    for n in (1, 2, 3):
        for combo in itertools.permutations(ITEMS, n):
            option = ",".join(combo)
            cases += 1
            try:
                got = [tuple(x) for x in rl.parse_option(option)]
            except Exception as e:  # noqa
                fails.append(("parse-option-raised", {"option": option, "error": repr(e)[:100]}))
                continue
            want = expected(option)
            if sorted(got, reverse=True) != want:
                fails.append(("parsed-rules-differ-from-the-configured-ones", {"option": option, "parsed": got, "configured": want}))
            elif got != want:
                fails.append(("rules-not-longest-interval-first", {"option": option, "parsed": got}))
            if len(samples) < 3 and n == 3:
                samples.append({"option": option, "parsed": got})
    classes = {}
    for kind, ex in fails:
        rec = classes.setdefault(kind, {"count": 0, "example": ex})
        rec["count"] += 1
    out = {"cases": cases, "samples": samples, "failure_classes": [{"kind": k, "count": v["count"], "example": v["example"]} for k, v in sorted(classes.items())]}
    if a.json:
        json.dump(out, open(a.json, "w"), indent=1, default=str)
    for c in out["failure_classes"]:
        print("FAIL", c["kind"], c["count"], json.dumps(c["example"], default=str)[:300])
    print(json.dumps({"cases": cases}))
    return 0


if __name__ == "__main__":
    sys.exit(main())
