"""
BOUNDED stand-in (never counted as proved) for the configuration clause of C15: the contract on Authenticator.check_auth_event is
stated for an authenticator whose `valid_urls` is a LIST of urls; that the constructor (Authenticator.parse_options) produces such a
list from every documented spelling of `relay_urls` is exercised here.  For relay_urls absent (default), a single string, a list of
one, a list of two and a tuple, a real Authenticator is built and handed properly signed, fresh kind-22242 events whose relay tag is
each configured url, every proper prefix / suffix / inner substring of it, a superstring, the empty string and an unrelated url: the
answer must be accepted iff the relay tag EQUALS a configured url; likewise a challenge that is a prefix of the issued one is refused.

usage: auth_enum.py [--json OUT]
"""
import argparse
import json
import logging
import os
import sys
import time

ROOT = os.path.dirname(os.path.dirname(os.path.abspath(__file__)))
sys.path.insert(0, os.environ.get("PYVC_REPO", "/repo"))
logging.disable(logging.CRITICAL)

from aionostr.event import Event  # noqa: E402
from aionostr.key import PrivateKey  # noqa: E402
from nostr_relay.auth import Authenticator  # noqa: E402
from nostr_relay.errors import AuthenticationError  # noqa: E402

KEY = PrivateKey(bytes([7]) * 32)
DEFAULT = "ws://localhost:6969"
CONFIGS = [
    ("absent", None, [DEFAULT]),
    ("string", "wss://relay.example.com", ["wss://relay.example.com"]),
    ("list-of-one", ["wss://relay.example.com"], ["wss://relay.example.com"]),
    ("list-of-two", ["wss://a.example", "wss://bb.example/path"], ["wss://a.example", "wss://bb.example/path"]),
    ("tuple", ("wss://a.example", "wss://bb.example/path"), ["wss://a.example", "wss://bb.example/path"]),
]
CHALLENGE = "0123456789abcdef0123456789abcdef"


def auth_event(relay, challenge):
    ev = Event(pubkey=KEY.public_key.hex(), kind=22242, created_at=int(time.time()), tags=[["relay", relay], ["challenge", challenge]], content="")
    ev.sign(KEY.hex())
    return ev


def candidates(urls):
    out = set(urls) | {"", "wss://unrelated.example", "ws://l", "w"}
    for u in urls:
        out |= {u[:i] for i in (1, 5, len(u) - 1)} | {u[1:], u[3:-3], u + "/", u + "x", " " + u, u.upper()}
    return sorted(out)


def main():
    ap = argparse.ArgumentParser()
    ap.add_argument("--json")
    a = ap.parse_args()
    fails, n, samples = [], 0, []
    for label, setting, urls in CONFIGS:
        options = {"enabled": True}
        if setting is not None:
            options["relay_urls"] = setting
        auth = Authenticator(None, options)
        for relay in candidates(urls):
            for challenge, ch_ok in ((CHALLENGE, True), (CHALLENGE[:8], False), ("", False)):
                n += 1
                try:
                    auth.check_auth_event(auth_event(relay, challenge), CHALLENGE)
                    accepted = True
                except AuthenticationError:
                    accepted = False
                except Exception as e:  # noqa
                    fails.append(("check-raised-something-else", {"relay_urls": label, "relay_tag": relay, "error": repr(e)[:100]}))
                    continue
                want = (relay in urls) and ch_ok
                if len(samples) < 3 and want:
                    samples.append({"relay_urls": label, "relay_tag": relay, "accepted": accepted})
                if accepted and not want:
                    fails.append(("answer-accepted-for-a-url-or-challenge-that-is-not-the-relays", {"relay_urls": label, "configured": urls, "relay_tag": relay, "challenge_sent": challenge}))
                if want and not accepted:
                    fails.append(("correct-answer-refused", {"relay_urls": label, "configured": urls, "relay_tag": relay}))
    classes = {}
    for kind, ex in fails:
        rec = classes.setdefault(kind, {"count": 0, "example": ex})
        rec["count"] += 1
    out = {"cases": n, "samples": samples, "failure_classes": [{"kind": k, "count": v["count"], "example": v["example"]} for k, v in sorted(classes.items())]}
    if a.json:
        json.dump(out, open(a.json, "w"), indent=1, default=str)
    for c in out["failure_classes"]:
        print("FAIL", c["kind"], c["count"], json.dumps(c["example"], default=str)[:300])
    print(json.dumps({"cases": n}))
    return 0


if __name__ == "__main__":
    sys.exit(main())
