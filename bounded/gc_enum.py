"""
BOUNDED stand-in (never counted as proved) for the semantic half of C17: after one pass of the real garbage collector over a store
built through the real add_event, the removed events are exactly the ephemeral ones and those carrying a well-formed decimal
`expiration` earlier than now -- for every kind class (regular, deletion kind 5, replaceable, parameterised replaceable,
ephemeral) x expiration value (none, past, future, and the text-comparison corner cases that are recorded findings).

usage: gc_enum.py --backend sql|kv [--json OUT]
"""
import argparse
import asyncio
import json
import logging
import os
import sys
import time

ROOT = os.path.dirname(os.path.dirname(os.path.abspath(__file__)))
sys.path.insert(0, os.path.join(ROOT, "witness"))
sys.path.insert(0, os.path.join(ROOT, "stubs"))
sys.path.insert(0, os.environ.get("PYVC_REPO", "/repo"))
logging.disable(logging.CRITICAL)

from _sql import make_event, open_storage, stored_ids  # noqa: E402

NOW = int(time.time())
KINDS = [1, 5, 10001, 30001, 20001]          # regular, deletion request, replaceable, parameterised replaceable, ephemeral
# (text of the expiration tag, is it a well-formed decimal timestamp earlier than now?, finding class if text comparison differs)
EXPS = [(None, False, None), (str(NOW - 1000), True, None), (str(NOW + 100000), False, None), ("1000000000", True, None),
        ("999", True, "shorter-past-value-kept"), ("10000000000", False, "longer-future-value-deleted"), ("0x", False, "malformed-value-deleted")]


async def run(backend):
    fails, cases, samples = [], 0, []
    if backend == "sql":
        st = await open_storage()
        from nostr_relay.storage.db import QueryGarbageCollector as GC
    else:
        from _kv import open_kv, settle
        st = await open_kv()
        from nostr_relay.storage.kv import KVGarbageCollector as GC
    evs = []
    n = 0
    for kind in KINDS:
        for (text, expired, cls) in EXPS:
            n += 1
            tags = [["d", "x%d" % n]] if kind >= 30000 else []
            if text is not None:
                tags.append(["expiration", text])
            # one author per event so that replaceable kinds do not supersede one another
            ev = make_event(key=n % 4, kind=kind + (n if kind in (10001,) else 0), created_at=NOW - 5000 + n, tags=tags, content="e%d" % n)
            evs.append((ev, kind, text, expired, cls))
    for ev, *_ in evs:
        try:
            await st.add_event(ev.to_json_object())
        except Exception as e:  # noqa
            fails.append(("add-event-raised", None, {"kind": ev.kind, "tags": ev.tags, "error": repr(e)[:120]}))
    if backend == "kv":
        await settle(st)
    gc = GC(st)
    if backend == "sql":
        # the collector runs on whatever pooled connection it is given -- here NOT the first one the process opened
        held = await st.db.connect()
        try:
            async with st.db.begin() as conn:
                await gc.collect(conn)
        finally:
            await held.close()
    else:
        with st.db.begin() as txn:
            await gc.collect(txn)
        await settle(st)
    left = set()
    for ev, kind, text, expired, cls in evs:
        got = await stored_ids(st, {"ids": [ev.id]}) if backend == "sql" else None
        if backend == "kv":
            got = []
            async for e2 in st.run_single_query([{"ids": [ev.id]}]):
                got.append(e2.id)
        if got:
            left.add(ev.id)
    if backend == "sql":
        # index rows of removed events must be gone with them (tag queries and later collector passes read the tags table)
        import sqlite3
        url = str(st.db.url)
        path = url.split("///", 1)[1]
        c = sqlite3.connect(path)
        orphans = c.execute("SELECT count(*) FROM tags WHERE id NOT IN (SELECT id FROM events)").fetchone()[0]
        c.close()
        cases += 1
        if orphans:
            fails.append(("index-rows-of-removed-events-left-behind", None, {"orphan_tag_rows": orphans}))
    await st.close()
    for ev, kind, text, expired, cls in evs:
        cases += 1
        ephemeral = 20000 <= kind < 30000
        should_be_gone = ephemeral or expired
        gone = ev.id not in left
        rec = {"kind": ev.kind, "expiration": text, "gone_after_gc": gone, "should_be_gone": should_be_gone}
        if len(samples) < 4:
            samples.append(rec)
        if gone != should_be_gone:
            fails.append(("expired-or-ephemeral-event-kept" if should_be_gone else "live-event-removed", cls, rec))
    return cases, fails, samples


def main():
    ap = argparse.ArgumentParser()
    ap.add_argument("--backend", default="sql")
    ap.add_argument("--json")
    a = ap.parse_args()
    cases, fails, samples = asyncio.run(run(a.backend))
    classes = {}
    for kind, cls, ex in fails:
        rec = classes.setdefault((kind, cls), {"count": 0, "example": ex})
        rec["count"] += 1
    out = {"backend": a.backend, "cases": cases, "samples": samples,
           "failure_classes": [{"kind": k[0], "class": k[1], "count": v["count"], "example": v["example"]} for k, v in sorted(classes.items(), key=str)]}
    if a.json:
        json.dump(out, open(a.json, "w"), indent=1, default=str)
    for c in out["failure_classes"]:
        print("FAIL", c["kind"], c["class"], c["count"], json.dumps(c["example"], default=str)[:300])
    print(json.dumps({"backend": a.backend, "cases": cases}))
    return 0


if __name__ == "__main__":
    sys.exit(main())
