"""
BOUNDED stand-in (never counted as proved) for the engine half of C07 on the SQL backend: the contracts prove that every statement of
one event runs inside one `db.begin()` block and that a failing statement leaves through its exceptional exit; THAT such an exit
restores the store is an assumption about SQLAlchemy + SQLite as configured by the relay (connect hooks, pragmas, isolation level).
Here it is exercised: for three histories whose last event needs several statements (replacement of a replaceable event, a kind-5
deletion of two own events, kind-0 metadata superseding an older one), an engine error is injected at the k-th statement of the last
add_event, for every k; afterwards the committed contents of every table must equal the contents before that add_event.

usage: atomic_enum.py [--json OUT]
"""
import argparse
import asyncio
import json
import logging
import os
import shutil
import sqlite3
import sys
import tempfile

ROOT = os.path.dirname(os.path.dirname(os.path.abspath(__file__)))
sys.path.insert(0, os.path.join(ROOT, "witness"))
sys.path.insert(0, os.environ.get("PYVC_REPO", "/repo"))
logging.disable(logging.CRITICAL)

import sqlalchemy as sa  # noqa: E402
from _sql import make_event  # noqa: E402
from nostr_relay.storage.db import DBStorage  # noqa: E402
from nostr_relay.storage import get_metadata  # noqa: E402


def histories():
    v1 = make_event(key=0, kind=10001, created_at=1000, tags=[["t", "x"]], content="v1")
    v2 = make_event(key=0, kind=10001, created_at=2000, tags=[["t", "y"], ["p", "ab" * 32]], content="v2")
    n1 = make_event(key=1, kind=1, created_at=1000, tags=[["t", "a"]], content="n1")
    n2 = make_event(key=1, kind=1, created_at=1001, tags=[["t", "b"]], content="n2")
    d = make_event(key=1, kind=5, created_at=2000, tags=[["e", n1.id], ["e", n2.id]], content="")
    m1 = make_event(key=2, kind=0, created_at=1000, tags=[], content="{}")
    m2 = make_event(key=2, kind=0, created_at=2000, tags=[["p", "cd" * 32]], content="{\"name\":\"x\"}")
    return [("replace-a-replaceable-event", [v1], v2), ("delete-two-own-events", [n1, n2], d), ("supersede-metadata", [m1], m2)]


def dump(path):
    c = sqlite3.connect(path)
    out = {}
    for (t,) in c.execute("select name from sqlite_master where type='table' order by name"):
        out[t] = sorted(repr(r) for r in c.execute("select * from %s" % t))
    c.close()
    return out


async def one(prefix, last, fail_at):
    d = tempfile.mkdtemp(prefix="atomic_", dir="/dev/shm" if os.path.isdir("/dev/shm") else None)
    try:
        path = "%s/db.sqlite3" % d
        st = DBStorage({"sqlalchemy.url": "sqlite+aiosqlite:///" + path})
        await st.setup()
        async with st.db.begin() as conn:
            await conn.run_sync(get_metadata().create_all)
        for ev in prefix:
            await st.add_event(ev.to_json_object())
        before = dump(path)
        state = {"n": 0, "on": True}

        def hook(conn, cursor, statement, parameters, context, executemany):
            if not state["on"]:
                return
            state["n"] += 1
            if fail_at is not None and state["n"] == fail_at:
                raise sqlite3.OperationalError("injected engine error at statement %d" % fail_at)

        sa.event.listen(st.db.sync_engine, "before_cursor_execute", hook)
        raised = None
        try:
            await st.add_event(last.to_json_object())
        except Exception as e:  # noqa
            raised = repr(e)[:100]
        state["on"] = False
        sa.event.remove(st.db.sync_engine, "before_cursor_execute", hook)
        await st.close()
        after = dump(path)
        return state["n"], before, after, raised
    finally:
        shutil.rmtree(d, True)


async def run():
    fails, cases, samples = [], 0, []
    for name, prefix, last in histories():
        n, before, after, raised = await one(prefix, last, None)
        cases += 1
        if raised is not None or before == after:
            fails.append(("fault-free-run-did-not-apply-the-event", {"history": name, "raised": raised}))
            continue
        samples.append({"history": name, "statements_of_the_last_event": n})
        for k in range(1, n + 1):
            _, b2, a2, raised = await one(prefix, last, k)
            cases += 1
            if raised is None:
                fails.append(("injected-error-did-not-surface", {"history": name, "statement": k}))
            if a2 != b2:
                diff = {t: {"before": len(b2.get(t, [])), "after": len(a2.get(t, []))} for t in set(b2) | set(a2) if b2.get(t) != a2.get(t)}
                fails.append(("event-half-applied-after-engine-error", {"history": name, "failed_statement": k, "of": n, "tables_changed": diff}))
    return cases, fails, samples


def main():
    ap = argparse.ArgumentParser()
    ap.add_argument("--json")
    a = ap.parse_args()
    cases, fails, samples = asyncio.run(run())
    classes = {}
    for kind, ex in fails:
        rec = classes.setdefault(kind, {"count": 0, "example": ex})
        rec["count"] += 1
    out = {"cases": cases, "samples": samples, "failure_classes": [{"kind": k, "count": v["count"], "example": v["example"]} for k, v in sorted(classes.items())]}
    if a.json:
        json.dump(out, open(a.json, "w"), indent=1, default=str)
    for c in out["failure_classes"]:
        print("FAIL", c["kind"], c["count"], json.dumps(c["example"], default=str)[:300])
    print(json.dumps({"cases": cases, "samples": samples}))
    return 0


if __name__ == "__main__":
    sys.exit(main())
